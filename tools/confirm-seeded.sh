#!/bin/bash
# tools/confirm-seeded.sh <Cxx> <k> [extra properties...]  Confirm one sub-agent change (/tmp/wt/<Cxx>-out/change<k>) in its
# scratch worktree: patch applies, 141 unit tests pass with it, its demo fails with it and passes without it.
# Then probe our checks against it (try-patch on a scratch copy) and file it under /verif/seeded/<Cxx>-<k>/.
set -u
P="$1"; K="$2"; shift 2
WTROOT="${WTROOT:-/tmp/wt}"; WT="$WTROOT/$P"; SRC="$WTROOT/$P-out/change$K"
cd "$(dirname "$(readlink -f "$0")")/.." || exit 2
[ -f "$SRC/patch.diff" ] || { echo "no patch at $SRC"; exit 2; }
LOG="$(mktemp /tmp/confirm.XXXXXX)"
git -C "$WT" checkout -q -- . && git -C "$WT" clean -fdq src test
run_demo() { (cd "$SRC" && timeout 900 bash ./build_and_run.sh "$WT") >>"$LOG" 2>&1; echo $?; }
echo "== demo on unmodified tree" >>"$LOG"; CLEAN_RC=$(run_demo)
git -C "$WT" apply "$SRC/patch.diff" || { echo "patch does not apply"; exit 2; }
echo "== unit tests with patch" >>"$LOG"
TESTS=$( (cd "$WT" && make -k check 2>&1) | tee -a "$LOG" | grep -E "^\[  PASSED  \]|^\[  FAILED  \]" | tr '\n' ' ')
echo "== demo with patch" >>"$LOG"; PATCH_RC=$(run_demo)
git -C "$WT" checkout -q -- . && git -C "$WT" clean -fdq src test
echo "clean_demo_rc=$CLEAN_RC patched_demo_rc=$PATCH_RC tests='$TESTS'"
CONFIRMED=no
if [ "$CLEAN_RC" = 0 ] && [ "$PATCH_RC" != 0 ] && echo "$TESTS" | grep -q "PASSED  \] 141" && ! echo "$TESTS" | grep -q FAILED; then CONFIRMED=yes; fi
echo "confirmed=$CONFIRMED"
DEST="seeded/$P-${SEED_TAG:-}$K"
RESULTS=""
if [ "$CONFIRMED" = yes ]; then
	mkdir -p "$DEST"
	cp "$SRC/patch.diff" "$DEST/patch.diff"
	for f in demo.cpp demo.sh build_and_run.sh notes.txt; do [ -f "$SRC/$f" ] && cp "$SRC/$f" "$DEST/"; done
	for PROP in "$P" "$@"; do
		OUT=$(KEEP_REPLAYS="$DEST/replays-$PROP" tools/try-patch.sh "$DEST/patch.diff" "$PROP" quick 2>&1)
		RC=$(echo "$OUT" | grep -o "exit=[0-9]*" | tail -1 | cut -d= -f2)
		SIG=$(echo "$OUT" | grep "note:" | head -2 | sed 's/^ *note: //' | tr '\n' ';' | sed 's/"/'"'"'/g' | cut -c1-400)
		echo "check $PROP quick -> exit $RC  $SIG"
		RESULTS="$RESULTS{\"check\":\"$PROP quick\",\"exit\":${RC:-2},\"signature\":\"$SIG\"},"
	done
	NOTES=$(head -c 1500 "$SRC/notes.txt" 2>/dev/null | python3 -c 'import json,sys; print(json.dumps(sys.stdin.read()))')
	cat > "$DEST/meta.json" <<META
{
 "id": "$P-${SEED_TAG:-}$K",
 "breaks_property": "$P",
 "origin": "independent sub-agent given only the property text and a scratch worktree",
 "needs_to_manifest": $NOTES,
 "confirmed": {"unit_tests_with_patch": "$TESTS", "demo_exit_unmodified": $CLEAN_RC, "demo_exit_patched": $PATCH_RC, "how": "tools/confirm-seeded.sh $P $K (scratch worktree /tmp/wt/$P; patch applied with git apply; make -k check; build_and_run.sh)"},
 "our_checks": [${RESULTS%,}]
}
META
fi
rm -f "$LOG.keep"; mv "$LOG" "$LOG.keep" 2>/dev/null

#!/bin/bash
# tools/try-patch.sh <patch.diff> <Cxx> [tier]    Sensitivity probe: apply a patch to a scratch COPY of the
# repository (outside /repo and /verif), run that property's check against the copy, print the verdict,
# then delete the copy and its build output. Evidence/replays of the probe go to a scratch dir, not /verif/evidence.
set -u
PATCH="$(readlink -f "$1")"; PROP="$2"; TIER="${3:-quick}"
cd "$(dirname "$(readlink -f "$0")")/.." || exit 2
SCR="$(mktemp -d /tmp/trypatch.XXXXXX)"
mkdir -p "$SCR/repo"
cp -r "${VERIF_REPO:-/repo}/src" "$SCR/repo/src"
if ! (cd "$SCR/repo" && patch -p1 -s < "$PATCH"); then echo "try-patch: patch does not apply"; rm -rf "$SCR"; exit 2; fi
BUILD="$(make -s REPO="$SCR/repo" VARIANT=asan print-build)"
BUILDG="$(make -s REPO="$SCR/repo" VARIANT=gcc print-build)"
# A patch that touches no header leaves every harness object as it is: seed the scratch build with the harness objects (and their
# dependency files, which name the unchanged headers of the real repository) of the up-to-date baseline build, so that only the
# repository's own translation units are compiled for the copy.
if ! grep -qE '^\+\+\+ b/.*\.(h|hpp|inl)$' "$PATCH"; then
	for V in asan gcc; do
		[ "$V" = gcc ] && [ -n "${VERIF_NO_GCC_LANE:-}" ] && continue
		./check --build $V >/dev/null 2>&1
		BASE="$(make -s REPO="${VERIF_REPO:-/repo}" VARIANT=$V print-build)"
		B="$(make -s REPO="$SCR/repo" VARIANT=$V print-build)"
		if [ -d "$BASE/sim" ]; then mkdir -p "$B"; cp -a "$BASE/sim" "$B/sim"; fi
	done
fi
VERIF_REPO="$SCR/repo" VERIF_EVIDENCE_DIR="$SCR/ev" VERIF_REPLAY_DIR="$SCR/replays" ./check "$PROP" "$TIER" > "$SCR/out.txt" 2>&1
RC=$?
grep -E "VIOLATION|note:|simrun:|KNOWN|check:" "$SCR/out.txt" | head -12
if [ -n "${KEEP_REPLAYS:-}" ] && [ -d "$SCR/replays" ]; then mkdir -p "$KEEP_REPLAYS"; cp "$SCR"/replays/* "$KEEP_REPLAYS"/ 2>/dev/null; fi
rm -rf "$SCR" "$BUILD" "$BUILDG"
echo "try-patch: property=$PROP tier=$TIER exit=$RC"
exit $RC

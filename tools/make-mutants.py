#!/usr/bin/env python3
"""Regenerates /verif/mutants/*.diff from the catalogue below (DESIGN.md Appendix C): each mutant is a
one- or two-place textual edit of /repo/src that still compiles and passes the 141 unit tests. The diffs are
taken against the CURRENT /repo working tree, so re-run this after fix commits change the context lines."""
import os, subprocess, sys, tempfile, shutil, json

REPO = os.environ.get("VERIF_REPO", "/repo")
ROOT = os.path.dirname(os.path.dirname(os.path.abspath(__file__)))

# id, property whose check must fire ("-" = negative control: every listed check must stay silent), edits [(file, old, new)], note
M = [
 ("M01", "C02", [("src/Archive/VolFile.cpp", "previousIndex.fileSize + 11) & ~uint64_t(3)", "previousIndex.fileSize + 8) & ~uint64_t(3)")], "block offset loses the header/pad term"),
 ("M02", "C02", [("src/Archive/VolFile.cpp", "volWriter.Write(&padding, (-volInfo.indexEntries[i].fileSize) & 3);", "volWriter.Write(&padding, 0);")], "payload padding dropped"),
 ("M03", "C02", [("src/Archive/VolFile.cpp", "(volInfo.stringTableLength + 7) & ~3", "(volInfo.stringTableLength + 4 + 3) & ~1")], "name table padded to 2 instead of 4"),
 ("M04", "C02", [("src/Archive/VolFile.cpp", "volInfo.paddedStringTableLength + volInfo.paddedIndexTableLength + 24));", "volInfo.paddedStringTableLength + volInfo.paddedIndexTableLength + 28));"),
                 ("src/Archive/VolFile.cpp", "if (m_HeaderLength < m_StringTableLength + m_IndexTableLength + 24) {", "if (m_HeaderLength < m_StringTableLength + m_IndexTableLength + 28) {")], "header length constant changed symmetrically in writer and reader (round trip blind)"),
 ("M05", "C01", [("src/Archive/VolFile.cpp", "\t\tfor (const auto& path : volInfo.filesToPack) {\n\t\t\tif (XFile::PathsAreEqual(filename, path)) {\n\t\t\t\tthrow std::runtime_error(\"Cannot include a volume being overwritten in new volume \" + filename);\n\t\t\t}\n\t\t}\n\n\t\tStream::FileWriter volWriter(filename);\n",
                  "\t\tStream::FileWriter volWriter(filename);\n\n\t\tfor (const auto& path : volInfo.filesToPack) {\n\t\t\tif (XFile::PathsAreEqual(filename, path)) {\n\t\t\t\tthrow std::runtime_error(\"Cannot include a volume being overwritten in new volume \" + filename);\n\t\t\t}\n\t\t}\n\n")], "self-inclusion test moved after the destination is opened (truncated)"),
 ("M06", "C01", [("src/StringUtility.cpp", "if (tolower(string1[i]) < tolower(string2[i])) {", "if (string1[i] < string2[i]) {"), ("src/StringUtility.cpp", "else if (tolower(string1[i]) > tolower(string2[i])) {", "else if (string1[i] > string2[i]) {")], "member order becomes case-sensitive"),
 ("M07", "C01", [("src/Archive/ArchiveFile.cpp", "\t\t\tif (XFile::PathsAreEqual(GetName(i), name)) {\n\t\t\t\treturn i;", "\t\t\tif (GetName(i) == name) {\n\t\t\t\treturn i;")], "GetIndex compares case-sensitively"),
 ("M08", "C02", [("src/Archive/VolFile.cpp", "if (m_IndexEntries[packedFileCount].filenameOffset == UINT_MAX) {", "if (m_IndexEntries[packedFileCount].filenameOffset == UINT_MAX - 1) {")], "spare index slots counted as members"),
 ("M09", "C03", [("src/Archive/ClmFile.cpp", "uint64_t offset = headerSize + names.size() * sizeof(IndexEntry);", "uint64_t offset = headerSize;")], "CLM offsets ignore the index size"),
 ("M10", "C03", [("src/Archive/ClmFile.cpp", "std::strncpy(indexEntries[i].filename.data(), names[i].data(), sizeof(IndexEntry::filename));", "std::strncpy(indexEntries[i].filename.data(), names[i].data(), sizeof(IndexEntry::filename) - 1);")], "8-character names lose their last character"),
 ("M11", "C04", [("src/Archive/HuffLZ.cpp", "const int maxFill = 4096 - (314 - 253) - 1;", "const int maxFill = 4096 - (314 - 253) + 8;")], "fill threshold lets a long match overrun unread data"),
 ("M12", "C04", [("src/Archive/HuffLZ.cpp", "return { 4, ((offset - 0x90) >> 2) + 0x0C };", "return { 4, ((offset - 0x90) >> 2) + 0x0D };")], "one distance class decodes to the wrong upper bits"),
 ("M13", "C04", [("src/Archive/HuffLZ.cpp", "start = (m_BuffWriteIndex - offset - 1) & 0x0FFF;", "start = (m_BuffWriteIndex - offset) & 0x0FFF;")], "match source off by one"),
 ("M14", "C17", [("src/Archive/ArchiveFile.cpp", "if (index >= m_Count) {", "if (index > m_Count) {")], "index == count accepted by per-member calls"),
 ("M15", "C13", [("src/Stream/SliceReader.h", "if (startingOffset + sliceLength > wrappedStream.Length()) {", "if (startingOffset + sliceLength > wrappedStream.Length() + 1) {")], "slice may extend one byte past its parent"),
 ("M16", "C06", [("src/Map/MapWriter.cpp", "\t\t\tif (tilesetSource.tilesetFilename.size() > 0)\n\t\t\t{\n\t\t\t\tstream.Write(tilesetSource.numTiles);\n\t\t\t}", "\t\t\tstream.Write(tilesetSource.numTiles);")], "tile count written for empty tileset names"),
 ("M17", "C06", [("src/Map/MapReader.cpp", "\t\tstream.Read<uint32_t>(map.tileMappings);\n\t\tstream.Read<uint32_t>(map.terrainTypes);", "\t\tstream.Read<uint32_t>(map.terrainTypes);\n\t\tstream.Read<uint32_t>(map.tileMappings);"),
                 ("src/Map/MapWriter.cpp", "\t\tmapStream.Write<uint32_t>(map.tileMappings);\n\t\tmapStream.Write<uint32_t>(map.terrainTypes);", "\t\tmapStream.Write<uint32_t>(map.terrainTypes);\n\t\tmapStream.Write<uint32_t>(map.tileMappings);")], "mapping/terrain order swapped in reader and writer (round trip blind)"),
 ("M18", "-C06,C07", [("src/Map/MapReader.cpp", "if (tilesetSource.tilesetFilename.size() > 8) {", "if (tilesetSource.tilesetFilename.size() > 80) {")], "NEGATIVE CONTROL: loosens a pure format check"),
 ("M19", "C07", [("src/Map/MapReader.cpp", "\t\tReadSavedGameUnits(savedGameStream);\n\n\t\tReadVersionTag(savedGameStream, map.versionTag);", "\t\tReadSavedGameUnits(savedGameStream);")], "final version tag of a saved game no longer read: a prefix cutting it is accepted"),
 ("M20", "C08", [("src/Bitmap/ImageHeader.cpp", "return (bytesOfPixelsPerRow + 3) & ~3;", "return (bytesOfPixelsPerRow + 4) & ~3;")], "pitch one word too long for row sizes that are multiples of four"),
 ("M21", "C08", [("src/Bitmap/IndexedBmpWriter.cpp", "writer.Write(pixels.data() + y * pitch, bytesOfPixelsPerRow);", "writer.Write(pixels.data() + y * bytesOfPixelsPerRow, bytesOfPixelsPerRow);")], "rows written from the wrong offset"),
 ("M22", "C08", [("src/Bitmap/BitmapFile.cpp", "\t\timageHeader.height *= -1;\n\n\t\tstd::vector<uint8_t> invertedPixels;", "\t\tstd::vector<uint8_t> invertedPixels;")], "flip forgets the sign"),
 ("M23", "C09", [("src/Sprite/TilesetLoader.cpp", "\t\tSwapPaletteRedAndBlue(tileset.palette);\n", "")], "custom tileset written without the red/blue swap"),
 ("M24", "C09", [("src/Sprite/TilesetHeaders.h", "constexpr static uint32_t DefaultFlags = 8;", "constexpr static uint32_t DefaultFlags = 0;")], "header flag constant drifts (reader does not validate it)"),
 ("M25", "C09", [("src/Stream/BidirectionalReader.h", "\t\t\tReadImplementation(buffer, size);\n\t\t\tSeekBackward(size);", "\t\t\tReadImplementation(buffer, size);\n\t\t\tif (size != 4) SeekBackward(size);")], "4-byte peeks move the position"),
 ("M26", "C10", [("src/Sprite/ArtWriter.cpp", "\t\tif (frame.unknownBitfield.bReadOptionalData) {\n\t\t\twriter.Write(frame.optional3);", "\t\tif (frame.layerMetadata.bReadOptionalData) {\n\t\t\twriter.Write(frame.optional3);")], "optional bytes 3/4 written under the wrong flag"),
 ("M27", "C10", [("src/Sprite/ArtWriter.cpp", "for (auto pallete : palettes) {", "for (auto& pallete : const_cast<std::vector<Palette8Bit>&>(palettes)) {")], "palette swapped in place on the object during Write"),
 ("M28", "C11", [("src/Bitmap/IndexedBmpReader.cpp", "\t\tBitmapFile::VerifyPixelSizeMatchesImageDimensionsWithPitch(bitmapFile.imageHeader.bitCount, bitmapFile.imageHeader.width, bitmapFile.imageHeader.height, pixelContainerSize);\n", "")], "pixel-size cross-check dropped from the bitmap reader: a header whose pitch x height exceeds the pixel bytes is loaded; flip/save then walk past the pixels"),
 ("M29", "C12", [("src/Stream/MemoryReader.cpp", "\tvoid MemoryReader::Seek(uint64_t position) {\n\t\tif (position > streamSize) {", "\tvoid MemoryReader::Seek(uint64_t position) {\n\t\tif (position >= streamSize) {")], "legal seek to the end refused"),
 ("M30", "C12", [("src/Stream/MemoryReader.cpp", "if (newPosition > streamSize || newPosition < this->position) // Check if offset wraps past max size.", "if (newPosition > streamSize)")], "wrap test removed from SeekForward"),
 ("M31", "C13", [("src/Stream/SliceReader.h", "\t\t\tsliceLength(fileSliceReader.sliceLength)\n\t\t{\n\t\t\tInitialize();\n\t\t}", "\t\t\tsliceLength(fileSliceReader.sliceLength)\n\t\t{\n\t\t}")], "copied slice not repositioned to its start"),
 ("M32", "C13", [("src/Archive/VolFile.cpp", "\t\tSectionHeader sectionHeader = GetSectionHeader(index);\n\n\t\treturn std::make_unique<Stream::FileSliceReader>(archiveFileReader.Slice(archiveFileReader.Position(), static_cast<uint64_t>(sectionHeader.length)));",
                  "\t\tconst auto position = archiveFileReader.Position() + sizeof(SectionHeader);\n\t\tSectionHeader sectionHeader = GetSectionHeader(index);\n\n\t\treturn std::make_unique<Stream::FileSliceReader>(archiveFileReader.Slice(position, static_cast<uint64_t>(sectionHeader.length)));")], "member stream sliced from where the shared reader happened to be"),
 ("M33", "C14", [("src/Stream/MemoryWriter.cpp", "if (size > streamSize - offset) {", "if (size > streamSize - offset + 1) {")], "fixed-buffer writer accepts one byte too many"),
 ("M34", "C14", [("src/Stream/Writer.h", "if (containerSize > std::numeric_limits<SizeType>::max()) {", "if (false && containerSize > std::numeric_limits<SizeType>::max()) {")], "size-prefix range check removed"),
 ("M35", "-C14", [("src/Stream/Writer.h", "} while (numBytesRead); // End loop when numBytesRead/Written is equal to 0", "} while (numBytesRead == BufferSize); // End loop on a short count")], "NEGATIVE CONTROL: equivalent for every library backend"),
 ("M36", "C17", [("src/ResourceManager.cpp", "\t\tif (XFile::IsFile(path)) {\n\t\t\treturn std::make_unique<Stream::FileReader>(path);\n\t\t}\n\n\t\tif (!accessArchives) {\n\t\t\treturn nullptr;\n\t\t}\n",
                  "\t\tif (!accessArchives) {\n\t\t\tif (XFile::IsFile(path)) {\n\t\t\t\treturn std::make_unique<Stream::FileReader>(path);\n\t\t\t}\n\t\t\treturn nullptr;\n\t\t}\n"),
                 ("src/ResourceManager.cpp", "\t\t\t\treturn archiveFile->OpenStream(index);\n\t\t\t}\n\t\t}\n\n\t\treturn nullptr;", "\t\t\t\treturn archiveFile->OpenStream(index);\n\t\t\t}\n\t\t}\n\n\t\tif (XFile::IsFile(path)) {\n\t\t\treturn std::make_unique<Stream::FileReader>(path);\n\t\t}\n\n\t\treturn nullptr;")], "archives searched before loose files"),
 ("M37", "C17", [("src/ResourceManager.cpp", "\t\tif (!accessArchives) {\n\t\t\treturn nullptr;\n\t\t}\n\n\t\tfor (const auto& archiveFile : ArchiveFiles)\n\t\t{\n\n\t\t\tif (archiveFile->Contains(filename)) {", "\t\tfor (const auto& archiveFile : ArchiveFiles)\n\t\t{\n\n\t\t\tif (archiveFile->Contains(filename)) {")], "accessArchives=false ignored"),
 ("M38", "-C17", [("src/ResourceManager.cpp", "\t\tconst auto volFilenames = GetFilesFromDirectory(\".vol\");\n\n\t\tfor (const auto& volFilename : volFilenames) {\n\t\t\tArchiveFiles.push_back(std::make_unique<VolFile>(XFile::Append(archiveDirectory, volFilename)));\n\t\t}\n\n\t\tconst auto clmFilenames = GetFilesFromDirectory(\".clm\");\n\n\t\tfor (const auto& clmFilename : clmFilenames) {\n\t\t\tArchiveFiles.push_back(std::make_unique<ClmFile>(XFile::Append(archiveDirectory, clmFilename)));\n\t\t}",
                   "\t\tconst auto clmFilenames = GetFilesFromDirectory(\".clm\");\n\n\t\tfor (const auto& clmFilename : clmFilenames) {\n\t\t\tArchiveFiles.push_back(std::make_unique<ClmFile>(XFile::Append(archiveDirectory, clmFilename)));\n\t\t}\n\n\t\tconst auto volFilenames = GetFilesFromDirectory(\".vol\");\n\n\t\tfor (const auto& volFilename : volFilenames) {\n\t\t\tArchiveFiles.push_back(std::make_unique<VolFile>(XFile::Append(archiveDirectory, volFilename)));\n\t\t}")], "NEGATIVE CONTROL: CLM archives loaded before VOL (load order is free)"),
 ("M39", "C18", [("src/Archive/VolFile.cpp", "\t\tint padding = 0; // Pad with 0 bytes", "\t\tint padding; // Pad with 0 bytes")], "header padding written from an uninitialised local"),
 ("M40", "C18", [("src/Sprite/ArtReader.cpp", "\t\tframe.optional1 = 0;\n\t\tframe.optional2 = 0;\n\t\tframe.optional3 = 0;\n\t\tframe.optional4 = 0;\n", "")], "optional frame bytes left uninitialised when their flag is clear"),
 ("M41", "C18", [("src/Archive/VolFile.cpp", "\t\tstd::sort(filesToPack.begin(), filesToPack.end(), ComparePathFilenames);\n\n\t\tCreateVolumeInfo volInfo;", "\t\tCreateVolumeInfo volInfo;")], "VOL inputs no longer sorted: output depends on list order"),
 ("M42", "C20", [("src/Archive/ClmFile.cpp", "if (name.size() > 8) {", "if (name.size() > 9) {")], "9-character CLM names accepted (truncated)"),
 ("M43", "C20", [("src/Archive/ClmFile.cpp", "if (offset + indexEntries[i].dataLength > UINT32_MAX) {", "if (false) {")], "CLM offset overflow check removed"),
 ("M44", "C20", [("src/Archive/VolFile.cpp", "if (fileSize > INT32_MAX) {", "if (fileSize > UINT32_MAX) {")], "VOL member size limit loosened to 32 bits"),
 ("M45", "C20", [("src/Sprite/ArtWriter.cpp", "if (frame.layerMetadata.count != frame.layers.size()) {", "if (frame.layerMetadata.count > frame.layers.size()) {")], "layer count cross-check loosened"),
 ("M46", "C05", [("src/Stream/FileReader.cpp", "\t\t\tfile.clear();\n\t\t\tfile.seekg(-bytesRead, std::ios_base::cur);\n", "")], "failed read leaves the shared archive reader wedged again"),
 ("M47", "-C05", [("src/Archive/ClmFile.cpp", "\t\t} while (currentPosition < fileSize);", "\t\t} while (currentPosition != fileSize);")], "NEGATIVE CONTROL (found by the self-test): with the 64-bit cursor a walk that steps over the end just fails its next read - still an ordinary error, still terminates"),
 ("M48", "C12", [("src/Stream/MemoryReader.cpp", "position += bytesTransferred;", "position += size;")], "the original ReadPartial defect re-introduced"),
 ("M49", "C14", [("src/Stream/FileWriter.cpp", "iosOpenMode |= std::ios_base::app | std::ios_base::ate;", "iosOpenMode |= std::ios_base::ate;")], "the original Append-truncates defect re-introduced"),
 ("M51", "C03", [("src/Archive/ClmFile.cpp", "\t\tStream::FileWriter clmFileWriter(archiveFilename);\n", "\t\tconst std::string temporaryFilename = archiveFilename + \".tmp\";\n\t\t{\n\t\tStream::FileWriter clmFileWriter(temporaryFilename);\n"),
                 ("src/Archive/ClmFile.cpp", "\t\t\tclmFileWriter.Write(dataSlice);\n\t\t}\n", "\t\t\tclmFileWriter.Write(dataSlice);\n\t\t}\n\t\t}\n\t\tstd::rename(temporaryFilename.c_str(), archiveFilename.c_str());\n")], "CLM written to <archive>.tmp and renamed into place (an input living at that path is destroyed)"),
 ("M52", "C13", [("src/Archive/ClmFile.cpp", "\t\tauto slice = clmFileReader.Slice(\n\t\t\tindexEntry.dataOffset,", "\t\tauto slice = clmFileReader.Slice(\n\t\t\tstatic_cast<int>(indexEntry.dataOffset),")], "CLM member stream sliced at a signed 32-bit offset (tracks beyond 2 GiB)"),
 ("M53", "C05", [("src/Archive/VolFile.cpp", "archiveFileReader.Seek(m_IndexEntries[index].dataBlockOffset);", "archiveFileReader.Seek(static_cast<uint64_t>(static_cast<int>(m_IndexEntries[index].dataBlockOffset)));")], "VOL block header sought at a sign-extended offset (members beyond 2 GiB)"),
 ("M50", "C07", [("src/Map/MapReader.cpp", "if (mapHeader.lgWidthInTiles >= 32 ||", "if (mapHeader.lgWidthInTiles > 32 ||")], "log-width of exactly 32 accepted again"),
]

def main():
    outdir = os.path.join(ROOT, "mutants")
    shutil.rmtree(outdir, ignore_errors=True)
    os.makedirs(outdir)
    index = []
    bad = 0
    for mid, prop, edits, note in M:
        tmp = tempfile.mkdtemp(prefix="mut.")
        try:
            for which in ("a", "b"):
                os.makedirs(os.path.join(tmp, which))
                shutil.copytree(os.path.join(REPO, "src"), os.path.join(tmp, which, "src"))
            ok = True
            for f, old, new in edits:
                p = os.path.join(tmp, "b", f)
                s = open(p).read()
                if s.count(old) != 1:
                    print(f"{mid}: pattern found {s.count(old)} times in {f}", file=sys.stderr)
                    ok = False
                    break
                open(p, "w").write(s.replace(old, new))
            if not ok:
                bad += 1
                continue
            d = subprocess.run(["diff", "-ruN", "a/src", "b/src"], cwd=tmp, capture_output=True, text=True).stdout
            open(os.path.join(outdir, mid + ".diff"), "w").write(d)
            neg = prop.startswith("-")
            index.append({"id": mid, "properties": prop.lstrip("-").split(","), "negative_control": neg, "note": note})
        finally:
            shutil.rmtree(tmp, ignore_errors=True)
    json.dump(index, open(os.path.join(outdir, "index.json"), "w"), indent=1)
    print(f"{len(index)} mutants written, {bad} failed to apply")
    return 1 if bad else 0

if __name__ == "__main__":
    sys.exit(main())

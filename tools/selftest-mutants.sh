#!/bin/bash
# tools/selftest-mutants.sh [ids...]   Sensitivity self-test (DESIGN.md 6.2): every mutant in /verif/mutants is applied to a
# scratch COPY of the repository (outside /repo and /verif); the copy must still pass the 141 unit tests (SELFTEST_UNIT=1),
# then each listed property's quick check runs against the copy: a mutant must be reported (exit 1), a negative control must
# stay silent (exit 0). Copies and their build output are deleted after each mutant. Table -> evidence/selftest.json.
set -u
cd "$(dirname "$(readlink -f "$0")")/.." || exit 2
[ -f mutants/index.json ] || python3 tools/make-mutants.py || exit 2
IDS="$*"
[ -z "$IDS" ] && IDS=$(jq -r '.[].id' mutants/index.json)
ROWFILE=$(mktemp /tmp/selftest-rows.XXXXXX); BAD=0
for ID in $IDS; do
	PROPS=$(jq -r ".[] | select(.id==\"$ID\") | .properties | join(\" \")" mutants/index.json)
	NEG=$(jq -r ".[] | select(.id==\"$ID\") | .negative_control" mutants/index.json)
	NOTE=$(jq -r ".[] | select(.id==\"$ID\") | .note" mutants/index.json)
	UNIT="skipped"
	if [ -n "${SELFTEST_UNIT:-}" ]; then
		SCR=$(mktemp -d /tmp/mutunit.XXXXXX)
		rsync -a --exclude .git "${VERIF_REPO:-/repo}/" "$SCR/"
		if (cd "$SCR" && patch -p1 -s < "$OLDPWD/mutants/$ID.diff"); then
			UNIT=$( (cd "$SCR" && make -k check 2>&1) | grep -E "^\[  PASSED  \]|^\[  FAILED  \]|rror" | head -2 | tr '\n' ' ')
		else UNIT="patch failed"; fi
		rm -rf "$SCR"
	fi
	for P in $PROPS; do
		OUT=$(tools/try-patch.sh "mutants/$ID.diff" "$P" quick 2>&1)
		RC=$(echo "$OUT" | grep -o "exit=[0-9]*" | tail -1 | cut -d= -f2)
		SIG=$(echo "$OUT" | grep "note:" | head -1 | sed 's/^ *note: //' | cut -d: -f1-2 | sed 's/ ::.*//' | sed 's/"/'"'"'/g')
		if [ "$NEG" = true ]; then WANT=0; else WANT=1; fi
		if [ "${RC:-2}" = "$WANT" ]; then V=ok; else V=UNEXPECTED; BAD=1; fi
		echo "$ID $P want_exit=$WANT got_exit=${RC:-2} $V  [$SIG]  ($NOTE)"
		jq -n --arg m "$ID" --arg p "$P" --argjson neg "$NEG" --argjson want "$WANT" --argjson rc "${RC:-2}" --arg v "$V" --arg sig "$SIG" --arg unit "$UNIT" --arg note "$NOTE" \
			'{mutant: $m, property: $p, negative_control: $neg, expected_exit: $want, exit: $rc, verdict: $v, first_signature: $sig, unit_tests: $unit, note: $note}' >> "$ROWFILE"
	done
done
mkdir -p evidence
jq -s --argjson ok "$([ $BAD = 0 ] && echo true || echo false)" '{tool: "selftest-mutants", rows: ., ok: $ok}' "$ROWFILE" > "evidence/selftest${SELFTEST_TAG:-}.json"
rm -f "$ROWFILE"
exit $BAD

#!/bin/bash
# tools/coverage.sh [count]  Build simrun with clang source-based coverage (VARIANT=cov, no sanitizers), run every property's
# families for a reduced number of runs, and report line/function coverage of /repo/src per file and the line ranges
# that were never executed -> evidence/coverage.txt, evidence/coverage-uncovered.txt. Not a property check.
set -u
cd "$(dirname "$(readlink -f "$0")")/.." || exit 2
COUNT="${1:-1500}"
make -s -j16 REPO="${VERIF_REPO:-/repo}" VARIANT=cov >/dev/null 2>&1 || { echo "coverage build failed"; exit 2; }
BUILD="$(make -s REPO="${VERIF_REPO:-/repo}" VARIANT=cov print-build)"
SIM="$BUILD/simrun"
OUT="$(mktemp -d /tmp/cov.XXXXXX)"
export LLVM_PROFILE_FILE="$OUT/p-%8m.profraw"
for P in $("$SIM" families | grep '^C' | cut -d: -f1); do
	for FAM in $("$SIM" families | grep "^$P:" | cut -d: -f2 | tr ' ' '\n' | sed 's/(.*//' | grep .); do
		N="$COUNT"
		case "$FAM" in archive-damage|map-damage|image-damage) N=12 ;; limits) N=44 ;; lzh-drain) N=400 ;; esac
		"$SIM" run --property "$P" --family "$FAM" --count "$N" --jobs 8 --replay-dir "$OUT/r" >/dev/null 2>&1
		echo "ran $P $FAM ($N runs)"
	done
done
llvm-profdata-14 merge -sparse "$OUT"/*.profraw -o "$OUT/all.profdata" || exit 2
SRC="$(readlink -f "${VERIF_REPO:-/repo}")/src"
mkdir -p evidence
llvm-cov-14 report "$SIM" -instr-profile="$OUT/all.profdata" $(find "$SRC" -name '*.cpp' -o -name '*.h' | sort) 2>/dev/null | sed "s|$SRC/||" > evidence/coverage.txt
# never-executed lines, grouped into ranges per file (llvm-cov show prints "  line|  count|source")
llvm-cov-14 show "$SIM" -instr-profile="$OUT/all.profdata" $(find "$SRC" -name '*.cpp' -o -name '*.h' | sort) 2>/dev/null | awk -v src="$SRC/" '
	function flush() { if (start) { printf "%s:%d-%d  %s\n", file, start, last, text; start = 0 } }
	/^\/.*:$/ { flush(); file = $0; sub(src, "", file); sub(/:$/, "", file); next }
	{
		n = split($0, f, "|"); if (n < 3) { next }
		ln = f[1] + 0; cnt = f[2]; gsub(/ /, "", cnt)
		if (cnt == "0") { if (!start) { start = ln; text = f[3]; gsub(/^[ \t]+/, "", text); text = substr(text, 1, 110) } last = ln }
		else if (cnt != "") flush()
	}
	END { flush() }' > evidence/coverage-uncovered.txt
tail -3 evidence/coverage.txt
echo "never-executed line ranges: $(wc -l < evidence/coverage-uncovered.txt)"
rm -rf "$OUT"

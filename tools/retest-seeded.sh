#!/bin/bash
# tools/retest-seeded.sh <seeded-id> <Cxx> "<what was strengthened>"   re-run a check against a filed seeded change and append the result
set -u
cd "$(dirname "$(readlink -f "$0")")/.." || exit 2
ID="$1"; PROP="$2"; WHAT="${3:-}"
OUT=$(tools/try-patch.sh "seeded/$ID/patch.diff" "$PROP" quick 2>&1)
RC=$(echo "$OUT" | grep -o "exit=[0-9]*" | tail -1 | cut -d= -f2)
SIG=$(echo "$OUT" | grep "note:" | head -1 | sed 's/^ *note: //' | cut -c1-300)
jq --arg c "$PROP quick" --argjson rc "${RC:-2}" --arg s "$SIG" --arg w "$WHAT" '.our_checks += [{check: $c, exit: $rc, signature: $s, after_strengthening: $w}]' "seeded/$ID/meta.json" > "seeded/$ID/meta.json.tmp" && mv "seeded/$ID/meta.json.tmp" "seeded/$ID/meta.json"
echo "$ID $PROP exit=${RC:-2} $SIG" | cut -c1-200

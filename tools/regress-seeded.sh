#!/bin/bash
# tools/regress-seeded.sh [glob]   Re-run, for every filed seeded change (seeded/<id>/patch.diff), the quick check of the property it
# breaks against a scratch copy of the repository with the change applied (tools/try-patch.sh), three at a time, and write the table
# to evidence/seeded-regression.json (not a property evidence file). Expected: exit 1 for every change except those whose meta.json
# carries an "assessment" (judged not to break the property as stated: expected exit 0).
set -u
cd "$(dirname "$(readlink -f "$0")")/.." || exit 2
GLOB="${1:-*}"
OUT="${REGRESS_OUT:-$(mktemp -d /dev/shm/regress.XXXXXX)}"; mkdir -p "$OUT"
one() {
	ID="$1"; OUT="$2"
	PROP=$(jq -r '.breaks_property' "seeded/$ID/meta.json")
	R=$(VERIF_JOBS=8 tools/try-patch.sh "seeded/$ID/patch.diff" "$PROP" quick 2>&1)
	RC=$(echo "$R" | grep -o "exit=[0-9]*" | tail -1 | cut -d= -f2)
	SIG=$(echo "$R" | grep "note:" | head -1 | sed 's/^ *note: //' | cut -c1-160)
	ASSESSED=$(jq -r 'if .assessment then "yes" else "no" end' "seeded/$ID/meta.json")
	jq -n --arg id "$ID" --arg p "$PROP" --argjson rc "${RC:-2}" --arg s "$SIG" --arg a "$ASSESSED" '{id:$id, property:$p, exit:$rc, first_signature:$s, assessed_as_not_breaking:($a=="yes")}' > "$OUT/$ID.json"
	echo "$ID $PROP exit=${RC:-2}"
}
export -f one
# (ids already present in $OUT are skipped, so that an interrupted run can be continued; REGRESS_ASSEMBLE_ONLY=1 only writes the table)
if [ -z "${REGRESS_ASSEMBLE_ONLY:-}" ]; then
	ls -d seeded/$GLOB/ | xargs -n1 basename | while read -r id; do [ -f "$OUT/$id.json" ] || echo "$id"; done | xargs -P "${REGRESS_LANES:-3}" -I{} bash -c 'one {} '"$OUT"
fi
jq -s '{tool:"regress-seeded", rows: (. | sort_by(.id)), total: length, reported: ([.[]|select(.exit==1)]|length), not_reported: [.[]|select(.exit!=1)|.id]}' "$OUT"/*.json > evidence/seeded-regression.json
[ -n "${REGRESS_OUT:-}" ] || rm -rf "$OUT"
jq -r '"total=\(.total) reported=\(.reported) not_reported=\(.not_reported|join(","))"' evidence/seeded-regression.json

#!/bin/bash
# tools/selfcheck-determinism.sh [count]   Every family of every claimed property: the same seeds executed in
# separate supervisor processes at 1, 7 and 16 workers and under a different scratch root must give identical
# per-run event-log fingerprints. A mismatch is a bug in the harness (a forgotten source of nondeterminism),
# never in the library. Result table -> evidence/selfcheck-determinism.json (not a property evidence file).
set -u
cd "$(dirname "$(readlink -f "$0")")/.." || exit 2
COUNT="${1:-400}"
./check --build asan >/dev/null || exit 2
BUILD="$(make -s REPO="${VERIF_REPO:-/repo}" VARIANT=asan print-build)"
SIM="$BUILD/simrun"
OUT="$(mktemp -d /tmp/selfcheck.XXXXXX)"
mkdir -p "$OUT/altroot"
FAIL=0
ROWS=""
for P in $("$SIM" families | grep '^C' | cut -d: -f1); do
	for FAM in $("$SIM" families | grep "^$P:" | cut -d: -f2 | tr ' ' '\n' | sed 's/(.*//' | grep .); do
		N="$COUNT"
		case "$FAM" in archive-damage|map-damage|image-damage) N=6 ;; limits) N=44 ;; esac
		"$SIM" run --property "$P" --family "$FAM" --count "$N" --jobs 1 --fplog "$OUT/a.txt" --replay-dir "$OUT/r" >/dev/null 2>&1
		"$SIM" run --property "$P" --family "$FAM" --count "$N" --jobs 7 --fplog "$OUT/b.txt" --replay-dir "$OUT/r" >/dev/null 2>&1
		"$SIM" run --property "$P" --family "$FAM" --count "$N" --jobs 16 --scratch "$OUT/altroot/x" --fplog "$OUT/c.txt" --replay-dir "$OUT/r" >/dev/null 2>&1
		LINES=$(wc -l < "$OUT/a.txt")
		if cmp -s "$OUT/a.txt" "$OUT/b.txt" && cmp -s "$OUT/a.txt" "$OUT/c.txt" && [ "$LINES" -gt 0 ]; then V=identical; else V=MISMATCH; FAIL=1; diff "$OUT/a.txt" "$OUT/b.txt" | head -3; diff "$OUT/a.txt" "$OUT/c.txt" | head -3; fi
		echo "$P $FAM runs=$LINES x3 (1,7,16 workers; alternate scratch root): $V"
		ROWS="$ROWS{\"property\":\"$P\",\"family\":\"$FAM\",\"runs\":$LINES,\"configurations\":\"jobs=1 | jobs=7 | jobs=16 + other scratch root\",\"fingerprints\":\"$V\"},"
	done
done
mkdir -p evidence
echo "{\"tool\":\"selfcheck-determinism\",\"seed\":1,\"rows\":[${ROWS%,}],\"ok\":$([ $FAIL = 0 ] && echo true || echo false)}" | jq . > evidence/selfcheck-determinism.json
rm -rf "$OUT"
exit $FAIL

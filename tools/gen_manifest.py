#!/usr/bin/env python3
"""Regenerates /verif/MANIFEST.json from the table below and validates it against the schema.
Edit CLAIMED when a property gains or loses a check; everything else is derived."""
import json, os, subprocess, sys

ROOT = os.path.dirname(os.path.dirname(os.path.abspath(__file__)))

# id -> (level, design section, technique, level text, level note)
CLAIMED = {
    "C01": ("exploration", "DESIGN.md 4 (C01)", "seeded deterministic simulation: pack/reopen/extract histories on a simulated disk under short reads/writes, EINTR and memory-fill swarm, checked against an in-memory file-set model; refusal worlds checked with before/after disk snapshots",
            "Seeded worlds of 0..40 input files (all size residues mod 4, sizes around the 128 KiB copy chunk, names over letters/digits/punctuation in both cases, all name-table residues, 1-3 directories, five path spellings, permuted order) packed with VolFile::CreateArchive on a tmpfs scratch disk; the reopened archive is driven through seeded listing/lookup/stream/extract histories and compared with the model; duplicate-name and self-inclusion worlds must be refused with the disk snapshot unchanged. Sampling evidence, not proof.",
            "Trusts the file-set model and the lower-case-folding name order in sim/models/refvol.h; behaviour under EIO/ENOSPC is not asserted."),
    "C02": ("exploration", "DESIGN.md 4 (C02)", "seeded deterministic simulation with an independent VOL encoder/decoder as oracle: library-written archives parsed from the durable bytes; reference-encoded archives (spare slots, LZH/RLE/LZ members) opened by the library",
            "Two directions: every archive written in vol-roundtrip runs is parsed byte by byte by a strict independent decoder (tiling, names, blocks, search order); archives emitted by the independent encoder with 0..3 spare index slots and stored/LZH/RLE/LZ members are opened with VolFile and listed, streamed and extracted (LZH members must extract to the independent LZH decoder's output). Sampling evidence, not proof.",
            "Trusts sim/models/refvol.h and reflzh.h (written from the public format description, no code shared with /repo/src)."),
    "C03": ("exploration", "DESIGN.md 4 (C03)", "seeded deterministic simulation: WAV sets from an independent RIFF encoder packed on a simulated disk under short I/O and EINTR, reopened and compared with a track model; durable CLM bytes parsed by an independent decoder; refusal worlds",
            "Seeded sets of 0..8 RIFF/WAVE files sharing one arbitrary WaveFormat, with even-sized foreign chunks before fmt, between fmt and data and after data, 16- and 18-byte fmt chunks, data lengths 0..128 KiB+1, base names of 1..8 characters in either case, five path spellings, permuted order; after ClmFile::CreateArchive the durable bytes are parsed by an independent CLM decoder (header constants, offsets, lengths, file end), the reopened archive is listed, streamed and extracted and each extracted WAV is parsed strictly; not-RIFF, wrong RIFF size, differing formats, 9-character and case-duplicate names must be refused. Sampling evidence, not proof.",
            "Trusts sim/models/refclm.h (RIFF and CLM layouts written from the public descriptions)."),
    "C04": ("exploration", "DESIGN.md 4 (C04)", "seeded deterministic simulation: LZH decompressor vs an independent LZHUF reference decoder/encoder under seeded drain schedules (GetData boundary sizes mixed with GetInternalBuffer), damaged and over-capacity inputs, and VOL extraction",
            "Inputs: reference-encoded token lists covering every match length 3..60 and distance class, tokenised payloads, random bytes up to 100 KiB, constant bytes, truncated and bit-flipped streams, and streams needing more than 65221 symbol updates. The consumer is a seeded drain schedule; output must equal the reference decoder byte for byte for every schedule, a capacity error must be raised exactly where the reference stops, and extraction of the same stream as an LZH member of a reference-encoded VOL must write the same bytes. Sampling evidence, not proof.",
            "Trusts sim/models/reflzh.h (classical son/prnt/freq LZHUF form written from the format description; its encoder/decoder pair is self-checked in every payload run). Output for the 0-byte input is not asserted."),
    "C05": ("fault_enumeration", "DESIGN.md 4 (C05), 2.5", "deterministic simulation with exhaustive structure-guided storage-damage enumeration per seeded world: every prefix, field x boundary-value grid, multi-field templates, flips, splices; long-lived archive object vs fresh-object-per-call model; extent oracle on the damaged bytes; sanitizers and I/O-step watchdog",
            "Each run builds one small valid VOL, CLM or WAV with the independent encoders and then executes ALL its damage variants (every truncation point, every integer field x ~50 boundary values, coordinated multi-field corruptions such as index length + header length raised together or a name terminator overwritten, bit flips, region exchanges). Every damaged archive is opened once and driven through a seeded call sequence; each call is repeated on a freshly opened object and outcome class and value must agree (usable-after-failure); delivered member streams must equal the file bytes at the recorded extent or be refused; crashes, sanitizer reports, non-std exceptions and calls exceeding the I/O step budget are violations. One call in five on the long-lived object additionally runs with its k-th allocation failing (std::bad_alloc at an arbitrary point inside the call): whatever that call does, every later call must still agree with a fresh object. Exhaustive over the enumerated damage of each sampled world, sampling over worlds and call sequences.",
            "Byte strings reached are structure-guided damage of valid files, not the full 2^(8n) space and not coverage-guided mutation; ASan/UBSan/_GLIBCXX_ASSERTIONS are the memory/arithmetic oracle; finite memory is simulated by a 32 MiB allocation cap (bad_alloc counts as an ordinary error)."),
    "C06": ("exploration", "DESIGN.md 4 (C06)", "seeded deterministic simulation through the stream seam: reference-encoded maps read on memory/file/file-slice/SimReader backends with consumed-byte accounting, rewritten and compared with the independent MAP codec, then seeded edit histories mirrored on the model",
            "Seeded well-formed maps from an independent encoder (log-width 0..10, heights 0..64, arbitrary tile words, 0..6 tileset sources with empty and non-empty names, mapping/terrain/group tables incl. zero-area groups, arbitrary saved-game flag and version tags, optional trailing junk) are read through four reader backends under short reads/EINTR; every field is compared with the reference decode, the bytes consumed are counted at the seam (trailing bytes untouched), the rewrite must equal the consumed bytes up to the two documented normalisations and be byte-stable, and after every seeded edit history (cell type, lava-possible, version tag, trim) the written bytes must equal the model's encoding. The success path has no fault space of its own; the seams contribute consumption accounting, backend agreement and transparent I/O faults. Sampling evidence, not proof.",
            "Trusts sim/models/refmap.h (MAP layout per the format notes); edits only on maps of width >= 32 with in-range coordinates."),
    "C07": ("fault_enumeration", "DESIGN.md 4 (C07), 2.5", "deterministic simulation with exhaustive structure-guided damage enumeration per seeded map / saved game: every prefix (crash points of a writer), field x boundary grid, log-width/height wrap templates, flips; memory, file and SimReader backends; sanitizers, self-consistency and prefix-refusal oracles",
            "Each run encodes one small valid map or saved game (0x1E025-byte prefix + embedded map + unit block) with the independent codec and executes all its damage variants: every truncation point (saved games: every structural boundary +-1, 4 KiB multiples, 64 seeded points), every header/length field x ~50 boundary values, (log-width, height) pairs with log-width >= 32 or products beyond 32 bits, group width x height wraps, bit flips, splices. Oracles: no sanitizer report / non-std exception / hang; an accepted result has exactly width x height tiles with width a power of two (mathematical integers); any prefix cutting into the consumed portion is refused; the undamaged saved game yields the same embedded map as the reference decode.",
            "Structure-guided damage of valid files, not all byte strings; allocation cap 32 MiB stands for finite memory."),
    "C08": ("exploration", "DESIGN.md 4 (C08)", "seeded deterministic simulation through the stream seam: reference-encoded indexed bitmaps on four reader backends and three writer backends, independent inspection of the written bytes (pitch law, zero padding), factory and flip lanes",
            "Seeded bitmaps from an independent BMP encoder (depths 1/4/8, widths 0..200 covering every residue of row bits mod 32, heights of both signs and 0, full and partial colour tables, arbitrary padding bytes and unchecked header fields) are read, validated, checked against the geometry laws, written, inspected byte by byte by the harness (header, rows at pitch stride, zero padding), read back and compared; factory-made bitmaps for seeded (depth,width,height[,palette[,pixels]]) round-trip to an equal object; flipping once reverses rows and negates height, twice restores. Success path fault space is empty; the seams add backend agreement (a bitmap inside a slice of a larger file), write traces and transparent I/O faults. Sampling evidence, not proof.",
            "After the round trip a palette may be longer than the original only by black entries (the property preserves every original entry; it does not fix the table length)."),
    "C09": ("exploration", "DESIGN.md 4 (C09)", "seeded deterministic simulation through the stream seam: tileset pictures saved in custom and standard formats and re-loaded on four backends; custom bytes compared with an independent PBMP encoder; signature peek purity at seeded stream positions; constraint violations on save and load",
            "Seeded pictures (8-bit, 32 wide, 0..8 tiles high, both orientations, arbitrary palettes and pixels) are saved with WriteCustomTileset and WriteIndexed and loaded through the format-detecting loader on memory/file/file-slice/SimReader backends; the logical picture (rows from the top, red/green/blue/alpha) must be identical, custom loads must be top-down, the custom bytes must equal the reference encoding and be the same for both input orientations; PeekIsCustomTileset is probed with eight leading-signature classes at seeded start offsets and must neither misclassify nor move the position; width 31/33, height 33/-1 and 1/4-bit pictures are refused on save and on load from both formats. Sampling evidence, not proof.",
            "RefPbmp constants (flag word 8, tag counts, section lengths) are transcribed from the pinned tree: detects drift from the pinned format, not errors already in it."),
    "C10": ("exploration", "DESIGN.md 4 (C10)", "seeded deterministic simulation through the stream seam: reference-encoded PRT metadata read on four backends, deep comparison with the independent PRT model, write immutability snapshot, byte stability, writer-refusal lane",
            "Seeded PRT files from the reference encoder (0..4 palettes with canonical and non-canonical section headers, 0..12 images, 0..9 animations, frames with every combination of the two optional-data flags, layer counts 0..127, unknown containers 0..5) are read; cross-field rules are checked on the result; every field incl. red/green/blue order and optional bytes is compared with the model; Write must not alter the object (harness dump before/after), must reproduce the input when headers are canonical, and be byte-stable over a second round trip; structures mutated to break each cross-field rule must be refused by the writer. Sampling evidence, not proof.",
            "RefPrt layout is transcribed from the pinned tree (no independent offline description): detects drift, not errors already present at the pin."),
    "C11": ("fault_enumeration", "DESIGN.md 4 (C11), 2.5", "deterministic simulation with exhaustive structure-guided damage enumeration per seeded BMP / tileset (both formats) / PRT: prefixes, field x boundary grid, wrap-consistent multi-field templates, flips; seeded follow-up histories of every public operation incl. sprite extraction for every index 0..count+1; sanitizers",
            "Each run encodes one small valid file and executes all its damage variants (every truncation point, every header field x ~50 boundary values, hand-derived combinations that satisfy the size cross-checks only through 2^64 / 2^32 wrap-around such as negative widths with zero pixel bytes, height -2^31, tileset heights whose product with 32 wraps, PRT image geometry at the limits, bit flips, splices) on memory/file/SimReader backends. Whatever the loader returns is then driven through a seeded history of Validate, WriteIndexed, WriteCustomTileset, InvertScanLines, SwapRedAndBlue, ArtFile::Write and SpriteLoader::ExtractImage(i) for i in 0..count+1 and beyond against pixel files of seeded length. Oracles: no sanitizer report, assertion, non-std exception or watchdog; proper prefixes are refused.",
            "Multi-field combinations are hand-derived templates, not solver-chosen; zero-width bitmaps are excluded from the damage worlds because a legal zero-pitch image with height 2^31 makes row loops take minutes (finite, so not a violation, but unaffordable); clang 14 UBSan does not instrument std::abs(INT_MIN)."),
    "C12": ("exploration", "DESIGN.md 4 (C12), 2.3", "seeded deterministic simulation: reader actors vs byte-vector/cursor reference model, boundary/wrap argument classes, transparent I/O faults",
            "Seeded search over operation histories (reads, partial reads, peeks, seeks, typed helpers) on memory readers, memory slices, file slices and nested slices; every step is compared with a reference cursor model, destination buffers are exactly sized heap blocks under ASan, refused operations are checked for atomicity on the following steps. Sampling evidence, not proof.",
            "Trusts the reference model in sim/scen/stream_actors.cpp and ASan/UBSan/_GLIBCXX_ASSERTIONS for memory errors; file-backed actors run over real libstdc++ filebuf on tmpfs with injected short reads and EINTR."),
    "C13": ("exploration", "DESIGN.md 4 (C13), 2.3", "seeded deterministic simulation: interleaved reader/slice/copy actors over one source under a seeded scheduler, per-actor reference model checked after every step on five backends",
            "Seeded scheduler picks the acting object at every step among up to 10 live readers, slices, nested slices and copies sharing one source (memory, file, slice of either, slice of slice); after every step every live actor's position and length must match its model; slice creation outcomes incl. wrap-around parameters and parent movement are checked. A second family (archive-streams) uses reference-encoded VOL/CLM archives: member streams opened from TWO archive objects on the same file, slices and copies of them, and listing/lookup/OpenStream/ExtractFile calls on either archive object are interleaved by the scheduler, and every live stream must still match its own history after every step. Sampling evidence, not proof.",
            "Trusts the per-actor reference model; independence is observed through Position()/Length() of every actor after every step plus the bytes each later read delivers."),
    "C14": ("exploration", "DESIGN.md 4 (C14)", "seeded deterministic simulation: writer histories vs content model with guard zones; chunked stream-copy matrix over reader backends under short reads/writes and EINTR; FileWriter open-flag matrix checked on the durable bytes of the simulated disk",
            "Three scenario families: (a) MemoryWriter inside ASan-poisoned, sentinel-filled guard zones and DynamicMemoryWriter, driven by seeded histories of writes, typed writes and seeks with boundary/wrap arguments against a content model, plus typed write->typed read inverse and size-prefix limits 127/128, 255/256, 32767/32768, 65535/65536; (b) Writer::Write<Chunk>(Reader&) for nine chunk sizes x source lengths around chunk multiples x start positions x four reader backends x memory/file destinations; (c) all 16 open-flag subsets x {exists, absent} with the disk inspected after close. Sampling evidence, not proof.",
            "Trusts the content model in sim/scen/writers.cpp; durable content when neither Truncate nor Append is given is deliberately not asserted (the flags do not say)."),
    "C17": ("exploration", "DESIGN.md 4 (C17)", "seeded deterministic simulation: directory layouts of loose files, sub-directories and reference-encoded VOL/CLM archives with overlapping names; directory listing order is a seeded permutation at the readdir seam; layout model holding the set of allowed answers",
            "Seeded layouts (0..4 loose files, sub-directories incl. ones named *.vol / *.clm, 0..5 archives with members drawn from a shared name pool in several letter cases) are queried through ResourceManager (GetResourceStream with and without archive access, rooted paths, type and pattern listings, FindContainingArchivePath, GetArchiveFilenames) and through each archive object (Contains/GetIndex agreement, case- and './'-blindness, GetIndex(GetName(i)) = i, out-of-range indices on every per-member call). The order in which the directory lists entries - which decides archive load order - is permuted per run at the readdir seam; where the property leaves a choice (which archive serves a duplicated name) any allowed answer is accepted. Sampling evidence, not proof.",
            "Type listings are not compared in worlds where a loose file's extension matches the query only in another letter case (property silent); pattern queries are letter-only literals so they cannot match the directory part of a path."),
    "C18": ("exploration", "DESIGN.md 4 (C18)", "seeded deterministic simulation, twin-environment differential: every serialising/parsing scenario executed twice in one process under environments differing in heap fill, stack fill, heap shift, input order, path spelling, readdir order and I/O chunking; outputs and canonical parse dumps must be identical",
            "Each run executes 2..5 scenarios (objects from the library's own constructors and factories written out; VOL and CLM creation incl. extracted WAVs; map, bitmap, custom tileset and PRT read + rewrite) twice: the allocator seam fills fresh heap memory with a different byte, the stack is scribbled with a different byte before every library call, junk allocations shift heap addresses, the input list is permuted and spelled differently, the directory lists in another order and short-read/short-write/EINTR configurations differ. Every output byte string and every canonical dump of a parsed structure must be equal between the two passes. The thorough tier adds a definedness lane: 300 of the same plans run in an uninstrumented g++ -O2 build (other compiler, optimisation level and frame layout) with the allocator fill and stack scribbling switched off, under valgrind memcheck; a reproducible memcheck error is a violation (C18.defined). Sampling evidence, not proof.",
            "Detects dependence on stale memory only when it changes an output or a dumped field; objects are heap-allocated so that the allocator seam controls their initial bytes; a default-initialised (not value-initialised) aggregate ArtFile is the caller's choice and is not asserted."),
    "C20": ("fault_enumeration", "DESIGN.md 4 (C20)", "deterministic simulation on a simulated disk with sparse multi-GiB inputs and sink outputs: exhaustive enumeration of the finite list of at-limit and beyond-limit quantities x {destination absent, pre-existing}, refusal and destination-snapshot oracle",
            "The finite case list (VOL members of 2^31, 2^31+1, 2^32-1, 2^32, 2^32+5 bytes; member sets whose last block offset crosses 2^32; WAV sets whose last data offset crosses 2^32; CLM names of 9 and 12 characters; containers of 128/256/300/32768/65536/70000 elements against 8/16-bit signed and unsigned prefixes; every layer-list length 0..130 against every 7-bit count) is enumerated completely in both tiers, each case with the destination absent and pre-existing; sparse files and a write sink at the libc seam make 2-5 GiB inputs cost no disk blocks. Oracle: does not fit => exception; for VOL the disk snapshot before = after. The seed only varies names, order and transparent faults.",
            "That at-limit quantities which DO fit succeed is not asserted (an over-eager refusal is not a C20 violation; C01/C03 guard the success path); thorough additionally runs the fitting cases for context."),
}

NOT_APPLICABLE = {
    "C15": "pure in-memory data structure driven by one caller: no stream, file, allocator-visible state, schedule or fault enters the property, so deterministic simulation with fault injection has nothing to schedule or break (DESIGN.md 5)",
    "C16": "pure accessors over an in-memory vector (index bijection, bit-field getters/setters): no I/O, schedule or fault surface (DESIGN.md 5)",
    "C19": "pure functions of their string/integer arguments; order-theoretic laws over all pairs/triples and all 2^32 values are an enumeration/proof problem, not a simulation one (DESIGN.md 5)",
}

PENDING_REASON = "not claimed in this commit: scenario family designed in DESIGN.md 4 but its check is not built yet"

def main():
    props = [json.loads(l)["id"] for l in open(os.path.join(ROOT, "properties.jsonl"))]
    hooks_commits = []
    hc = os.path.join(ROOT, "hooks_commits.txt")
    if os.path.exists(hc):
        hooks_commits = [l.strip() for l in open(hc) if l.strip()]
    checks = []
    for pid in props:
        if pid not in CLAIMED:
            continue
        level, ref, technique, text, note = CLAIMED[pid]
        checks.append({
            "property_id": pid,
            "quick_cmd": f"./check {pid} quick",
            "thorough_cmd": f"./check {pid} thorough",
            "evidence_file": f"evidence/{pid}.json",
            "replay_cmd_template": "./check --replay {path}",
            "engine": "simrun",
            "level_claimed": {"category": level, "text": text, "design_ref": ref},
            "level_note": note,
            "technique": technique,
        })
    na = []
    for pid in props:
        if pid in CLAIMED:
            continue
        na.append({"property_id": pid, "reason": NOT_APPLICABLE.get(pid, PENDING_REASON)})
    manifest = {
        "version": 1,
        "setup_cmd": "./check --build asan",
        "hooks": {
            "guard": "OP2UTILITY_VERIF",
            "enable": "make -C /verif REPO=/repo VARIANT=asan (compiles every /repo/src/**/*.cpp with -DOP2UTILITY_VERIF; no hook is currently needed, all seams are at the libc boundary, the allocator and the library's own Stream interfaces)",
            "baseline_off_cmd": "cd /repo && make -k check",
            "source_commits": hooks_commits,
            "add_only": True,
        },
        "engines": [{
            "name": "simrun",
            "path": "sim/",
            "serves_properties": sorted(CLAIMED.keys()),
            "kind_free_text": "deterministic simulation with fault injection: one executable linking OP2Utility (ASan+UBSan) with a seeded plan generator/scheduler, libc-boundary fault layer, allocator seam, simulated disk, reference models, violation gating, ddmin minimisation and replay",
        }],
        "checks": checks,
        "not_applicable": na,
        "notes": "Every check rebuilds simrun from /repo's working tree (make with dependency files), then runs a fixed index range of seeded plans for the tier. Exit 0/1/2 = held / violation (VIOLATION line with a replay file that reproduces in a fresh process) / infrastructure problem. VERIF_SEED selects the base seed; VERIF_REPO points the build at another checkout.",
    }
    out = os.path.join(ROOT, "MANIFEST.json")
    with open(out, "w") as f:
        json.dump(manifest, f, indent=1)
        f.write("\n")
    try:
        import jsonschema
        jsonschema.validate(manifest, json.load(open("/root/.vp/MANIFEST.schema.json")))
        print("MANIFEST.json valid;", len(checks), "checks,", len(na), "not claimed")
    except ImportError:
        print("MANIFEST.json written (jsonschema not available to validate)")

if __name__ == "__main__":
    main()

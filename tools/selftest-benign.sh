#!/bin/bash
# tools/selftest-benign.sh [ids...]   Quietness self-test: every patch in /verif/benign is a behaviour-preserving refactor of the
# library (other chunk sizes, buffering, error texts and types, I/O call shapes, load order, lookup loops ...) under which all
# 20 properties still hold. Each is applied to a scratch COPY of the repository (outside /repo and /verif), the 141 unit tests
# must pass on it, and then EVERY property's quick check must exit 0 against the copy. Table -> "evidence/selftest-benign${BENIGN_TAG:-}.json".
set -u
cd "$(dirname "$(readlink -f "$0")")/.." || exit 2
IDS="$*"
[ -z "$IDS" ] && IDS=$(cut -d'|' -f1 benign/index.txt)
PROPS="${BENIGN_PROPS:-$(jq -r '.checks[].property_id' MANIFEST.json)}"
ROWFILE=$(mktemp /tmp/benign-rows.XXXXXX); BAD=0
for ID in $IDS; do
	NOTE=$(grep "^$ID|" benign/index.txt | cut -d'|' -f2)
	SCR=$(mktemp -d /tmp/benign.XXXXXX)
	rsync -a --exclude .git "${VERIF_REPO:-/repo}/" "$SCR/"
	if ! (cd "$SCR" && patch -p1 -s < "$OLDPWD/benign/$ID.diff"); then echo "$ID patch failed"; BAD=1; rm -rf "$SCR"; continue; fi
	if [ -n "${BENIGN_SKIP_UNIT:-}" ]; then UNIT="not re-run (BENIGN_SKIP_UNIT; the patch is unchanged since the run that recorded 141 passing tests)"
	else UNIT=$( (cd "$SCR" && make -k check 2>&1) | grep -E "^\[  PASSED  \]|^\[  FAILED  \]" | head -2 | tr '\n' ' '); (cd "$SCR" && make clean >/dev/null 2>&1); fi
	# a patch that touches no header leaves the harness objects as they are: seed the scratch builds with those of the baseline
	if ! grep -qE '^\+\+\+ b/.*\.(h|hpp|inl)$' "benign/$ID.diff"; then
		for V in asan gcc; do
			[ "$V" = gcc ] && [ -n "${VERIF_NO_GCC_LANE:-}" ] && continue
			./check --build $V >/dev/null 2>&1
			BASE="$(make -s REPO="${VERIF_REPO:-/repo}" VARIANT=$V print-build)"; B="$(make -s REPO="$SCR" VARIANT=$V print-build)"
			if [ -d "$BASE/sim" ]; then mkdir -p "$B"; cp -a "$BASE/sim" "$B/sim"; fi
		done
	fi
	EVD=$(mktemp -d /tmp/benign-ev.XXXXXX)
	for P in $PROPS; do
		OUT=$(VERIF_REPO="$SCR" VERIF_EVIDENCE_DIR="$EVD" VERIF_REPLAY_DIR="$EVD/r" ./check "$P" quick 2>&1); RC=$?
		SIG=$(echo "$OUT" | grep "note:" | head -1 | sed 's/^ *note: //' | cut -c1-300)
		if [ "$RC" = 0 ] && ! echo "$OUT" | grep -q "^VIOLATION"; then V=ok; else V=FALSE-ALARM; BAD=1; fi
		echo "$ID $P exit=$RC $V [$SIG] ($NOTE)"
		jq -n --arg b "$ID" --arg p "$P" --argjson rc "$RC" --arg v "$V" --arg sig "$SIG" --arg unit "$UNIT" --arg note "$NOTE" \
			'{patch: $b, property: $p, expected_exit: 0, exit: $rc, verdict: $v, first_signature: $sig, unit_tests: $unit, note: $note}' >> "$ROWFILE"
	done
	BUILD=$(make -s REPO="$SCR" VARIANT=asan print-build); BUILDG=$(make -s REPO="$SCR" VARIANT=gcc print-build); rm -rf "$BUILD" "$BUILDG" "$SCR" "$EVD"
done
mkdir -p evidence
jq -s --argjson ok "$([ $BAD = 0 ] && echo true || echo false)" '{tool: "selftest-benign", rows: ., ok: $ok}' "$ROWFILE" > "evidence/selftest-benign${BENIGN_TAG:-}.json"
rm -f "$ROWFILE"
exit $BAD

// Independent codecs for indexed BMP, the custom tileset format (PBMP) and PRT sprite metadata
// (DESIGN.md Appendix A). RefBmp follows the BMP specification; RefPbmp and RefPrt constants are
// transcribed from the pinned tree (no independent offline description): they detect drift.
#pragma once
#include "refvol.h"
#include "refmap.h"
#include "../seams/damage.h"
#include <array>
#include <string>
#include <vector>

namespace sim { namespace ref {

inline size_t bmpPitch(uint32_t w, int bits) { return ((static_cast<size_t>(w) * static_cast<size_t>(bits) + 7) / 8 + 3) & ~static_cast<size_t>(3); }
inline size_t bmpRowBytes(uint32_t w, int bits) { return (static_cast<size_t>(w) * static_cast<size_t>(bits) + 7) / 8; }

struct RBmp {
	int bits = 8;
	int32_t w = 0, h = 0;
	uint32_t clrUsed = 0, clrImportant = 0;
	uint32_t compression = 0, imageSize = 0, xppm = 0, yppm = 0;
	std::vector<std::array<uint8_t, 4>> palette; // as stored in the file; the library reads them verbatim into {red,green,blue,alpha}
	std::vector<uint8_t> pixels;                 // |h| rows of pitch bytes, padding included, in file order
	size_t pitch() const { return bmpPitch(static_cast<uint32_t>(w), bits); }
	size_t rows() const { return static_cast<size_t>(h < 0 ? -static_cast<int64_t>(h) : h); }
};

inline std::vector<uint8_t> encodeBmp(const RBmp& b, std::vector<Field>* fields = nullptr) {
	std::vector<uint8_t> o;
	auto field = [&](const std::string& n, int w) { if (fields) fields->push_back(Field{n, o.size(), w}); };
	uint32_t pixelOffset = 54 + 4 * static_cast<uint32_t>(b.palette.size());
	field("sig", 2); o.push_back('B'); o.push_back('M');
	field("fileSize", 4); putU32(o, pixelOffset + static_cast<uint32_t>(b.pixels.size()));
	field("reserved1", 2); putU16(o, 0);
	field("reserved2", 2); putU16(o, 0);
	field("pixelOffset", 4); putU32(o, pixelOffset);
	field("headerSize", 4); putU32(o, 40);
	field("width", 4); putU32(o, static_cast<uint32_t>(b.w));
	field("height", 4); putU32(o, static_cast<uint32_t>(b.h));
	field("planes", 2); putU16(o, 1);
	field("bitCount", 2); putU16(o, static_cast<uint16_t>(b.bits));
	field("compression", 4); putU32(o, b.compression);
	field("imageSize", 4); putU32(o, b.imageSize);
	field("xppm", 4); putU32(o, b.xppm);
	field("yppm", 4); putU32(o, b.yppm);
	field("clrUsed", 4); putU32(o, b.clrUsed);
	field("clrImportant", 4); putU32(o, b.clrImportant);
	for (auto& c : b.palette) o.insert(o.end(), c.begin(), c.end());
	o.insert(o.end(), b.pixels.begin(), b.pixels.end());
	return o;
}

// ---- custom tileset (PBMP) ----
struct RTileset {
	uint32_t h = 0;                                  // multiple of 32
	std::array<std::array<uint8_t, 4>, 256> palette; // in-memory order {red,green,blue,alpha}
	std::vector<uint8_t> rows;                       // top-down, 32 bytes per row
};

inline std::vector<uint8_t> encodePbmp(const RTileset& t, std::vector<Field>* fields = nullptr) {
	std::vector<uint8_t> o;
	auto field = [&](const std::string& n, int w) { if (fields) fields->push_back(Field{n, o.size(), w}); };
	field("PBMP.tag", 4); putTag(o, "PBMP");
	field("PBMP.len", 4); putU32(o, 1068 + 32 * t.h);
	field("head.tag", 4); putTag(o, "head");
	field("head.len", 4); putU32(o, 0x14);
	field("tagCount", 4); putU32(o, 2);
	field("pixelWidth", 4); putU32(o, 32);
	field("pixelHeight", 4); putU32(o, t.h);
	field("bitDepth", 4); putU32(o, 8);
	field("flags", 4); putU32(o, 8);
	field("PPAL.tag", 4); putTag(o, "PPAL");
	field("PPAL.len", 4); putU32(o, 1048);
	field("phead.tag", 4); putTag(o, "head");
	field("phead.len", 4); putU32(o, 4);
	field("ptagCount", 4); putU32(o, 1);
	field("pdata.tag", 4); putTag(o, "data");
	field("pdata.len", 4); putU32(o, 1024);
	for (auto& c : t.palette) { o.push_back(c[2]); o.push_back(c[1]); o.push_back(c[0]); o.push_back(c[3]); } // blue, green, red, alpha
	field("pix.tag", 4); putTag(o, "data");
	field("pix.len", 4); putU32(o, 32 * t.h);
	o.insert(o.end(), t.rows.begin(), t.rows.end());
	return o;
}

// ---- PRT ----
struct RPrt {
	struct PalHeader { uint32_t secLen = 4, dataLen = 1024, tagCount = 1; }; // canonical values
	struct Pal { PalHeader hdr; std::array<std::array<uint8_t, 4>, 256> colors; };     // in-memory {red,green,blue,alpha}
	struct Image { uint32_t scanLine = 0, dataOffset = 0, height = 0, width = 0; uint16_t type = 0, paletteIndex = 0; };
	struct Frame { uint8_t layerMeta = 0, unknownBits = 0, opt[4] = {0, 0, 0, 0}; std::vector<std::array<uint8_t, 8>> layers; };
	struct Anim { uint32_t unknown = 0; int32_t rect[4] = {0, 0, 0, 0}; int32_t point[2] = {0, 0}; uint32_t unknown2 = 0; std::vector<Frame> frames; std::vector<std::array<uint8_t, 16>> unknownContainer; };
	std::vector<Pal> palettes;
	std::vector<Image> images;
	std::vector<Anim> anims;
	uint32_t unknownCount = 0;
	bool canonicalHeaders() const { for (auto& p : palettes) if (p.hdr.secLen != 4 || p.hdr.dataLen != 1024 || p.hdr.tagCount != 1) return false; return true; }
};

inline std::vector<uint8_t> encodePrt(const RPrt& p, std::vector<Field>* fields = nullptr) {
	std::vector<uint8_t> o;
	auto field = [&](const std::string& n, int w) { if (fields) fields->push_back(Field{n, o.size(), w}); };
	field("CPAL.tag", 4); putTag(o, "CPAL");
	field("nPal", 4); putU32(o, static_cast<uint32_t>(p.palettes.size()));
	for (size_t i = 0; i < p.palettes.size(); ++i) {
		const auto& pal = p.palettes[i];
		std::string q = "pal" + std::to_string(i) + ".";
		field(q + "PPAL.tag", 4); putTag(o, "PPAL");
		field(q + "PPAL.len", 4); putU32(o, pal.hdr.secLen + pal.hdr.dataLen + 20);
		field(q + "head.tag", 4); putTag(o, "head");
		field(q + "head.len", 4); putU32(o, pal.hdr.secLen);
		field(q + "tagCount", 4); putU32(o, pal.hdr.tagCount);
		field(q + "data.tag", 4); putTag(o, "data");
		field(q + "data.len", 4); putU32(o, pal.hdr.dataLen);
		for (auto& c : pal.colors) { o.push_back(c[2]); o.push_back(c[1]); o.push_back(c[0]); o.push_back(c[3]); }
	}
	field("nImg", 4); putU32(o, static_cast<uint32_t>(p.images.size()));
	for (size_t i = 0; i < p.images.size(); ++i) {
		const auto& im = p.images[i];
		std::string q = "img" + std::to_string(i) + ".";
		field(q + "scanLine", 4); putU32(o, im.scanLine);
		field(q + "dataOffset", 4); putU32(o, im.dataOffset);
		field(q + "height", 4); putU32(o, im.height);
		field(q + "width", 4); putU32(o, im.width);
		field(q + "type", 2); putU16(o, im.type);
		field(q + "paletteIndex", 2); putU16(o, im.paletteIndex);
	}
	uint32_t frames = 0, layers = 0;
	for (auto& a : p.anims) { frames += static_cast<uint32_t>(a.frames.size()); for (auto& f : a.frames) layers += static_cast<uint32_t>(f.layers.size()); }
	field("nAnim", 4); putU32(o, static_cast<uint32_t>(p.anims.size()));
	field("nFrames", 4); putU32(o, frames);
	field("nLayers", 4); putU32(o, layers);
	field("unknownCount", 4); putU32(o, p.unknownCount);
	for (size_t i = 0; i < p.anims.size(); ++i) {
		const auto& a = p.anims[i];
		std::string q = "an" + std::to_string(i) + ".";
		field(q + "unknown", 4); putU32(o, a.unknown);
		for (int k = 0; k < 4; ++k) putU32(o, static_cast<uint32_t>(a.rect[k]));
		for (int k = 0; k < 2; ++k) putU32(o, static_cast<uint32_t>(a.point[k]));
		putU32(o, a.unknown2);
		field(q + "frameCount", 4); putU32(o, static_cast<uint32_t>(a.frames.size()));
		for (size_t fi = 0; fi < a.frames.size(); ++fi) {
			const auto& f = a.frames[fi];
			std::string fq = q + "f" + std::to_string(fi) + ".";
			field(fq + "layerMeta", 1); o.push_back(f.layerMeta);
			field(fq + "unknownBits", 1); o.push_back(f.unknownBits);
			if (f.layerMeta & 0x80) { o.push_back(f.opt[0]); o.push_back(f.opt[1]); }
			if (f.unknownBits & 0x80) { o.push_back(f.opt[2]); o.push_back(f.opt[3]); }
			for (auto& l : f.layers) o.insert(o.end(), l.begin(), l.end());
		}
		field(q + "containerCount", 4); putU32(o, static_cast<uint32_t>(a.unknownContainer.size()));
		for (auto& c : a.unknownContainer) o.insert(o.end(), c.begin(), c.end());
	}
	return o;
}

}} // namespace

// Independent VOL encoder / strict decoder (DESIGN.md Appendix A). Shares no code with /repo/src.
#pragma once
#include <cstdint>
#include <cstring>
#include <string>
#include <vector>

namespace sim { namespace ref {

inline uint32_t pad4(uint32_t x) { return (x + 3u) & ~3u; }
inline void putU32(std::vector<uint8_t>& v, uint32_t x) { for (int i = 0; i < 4; ++i) v.push_back(static_cast<uint8_t>(x >> (8 * i))); }
inline void putU16(std::vector<uint8_t>& v, uint16_t x) { v.push_back(static_cast<uint8_t>(x)); v.push_back(static_cast<uint8_t>(x >> 8)); }
inline void putTag(std::vector<uint8_t>& v, const char* t) { v.insert(v.end(), t, t + 4); }
inline uint32_t getU32(const std::vector<uint8_t>& v, size_t off) { return static_cast<uint32_t>(v[off]) | static_cast<uint32_t>(v[off + 1]) << 8 | static_cast<uint32_t>(v[off + 2]) << 16 | static_cast<uint32_t>(v[off + 3]) << 24; }
inline uint16_t getU16(const std::vector<uint8_t>& v, size_t off) { return static_cast<uint16_t>(v[off] | v[off + 1] << 8); }

inline int foldLower(unsigned char c) { return (c >= 'A' && c <= 'Z') ? c + 32 : c; }
// the format's member order: byte-wise comparison of lower-cased names, shorter first on a common prefix
inline int nameCompare(const std::string& a, const std::string& b) {
	size_t n = a.size() < b.size() ? a.size() : b.size();
	for (size_t i = 0; i < n; ++i) {
		int x = foldLower(static_cast<unsigned char>(a[i])), y = foldLower(static_cast<unsigned char>(b[i]));
		if (x != y) return x < y ? -1 : 1;
	}
	if (a.size() == b.size()) return 0;
	return a.size() < b.size() ? -1 : 1;
}
inline bool nameEqualNoCase(const std::string& a, const std::string& b) { return nameCompare(a, b) == 0; }

struct VolMember {
	std::string name;
	std::vector<uint8_t> stored; // bytes inside the VBLK block
	uint32_t size = 0;           // index "fileSize" field (== stored.size() for stored members)
	uint16_t kind = 0x100;       // 0x100 stored, 0x101 RLE, 0x102 LZ, 0x103 LZH
};

struct VolField { std::string name; size_t off; int width; };

struct VolImage {
	std::vector<uint8_t> bytes;
	std::vector<VolField> fields;      // every integer field / tag with its offset, for structure-guided damage
	std::vector<uint32_t> blockOffsets;
	uint32_t headerEnd = 0;
};

// Encode members in the order given (callers sort with nameCompare for a conforming archive).
// surplusNames: further NUL-terminated strings in the name table that no valid index entry refers to (names of unused slots)
inline VolImage encodeVol(const std::vector<VolMember>& ms, uint32_t spareSlots = 0, const std::vector<std::string>& surplusNames = {}) {
	VolImage im;
	std::vector<uint8_t>& b = im.bytes;
	uint32_t T = 0;
	for (auto& m : ms) T += static_cast<uint32_t>(m.name.size()) + 1;
	for (auto& n : surplusNames) T += static_cast<uint32_t>(n.size()) + 1;
	uint32_t S = pad4(4 + T);
	uint32_t n = static_cast<uint32_t>(ms.size());
	uint32_t L = 14 * (n + spareSlots);
	uint32_t I = pad4(L);
	auto field = [&](const std::string& nm, int w) { im.fields.push_back(VolField{nm, b.size(), w}); };
	field("VOL.tag", 4); putTag(b, "VOL ");
	field("VOL.len", 4); putU32(b, (S + I + 24) | 0x80000000u);
	field("volh.tag", 4); putTag(b, "volh");
	field("volh.len", 4); putU32(b, 0x80000000u);
	field("vols.tag", 4); putTag(b, "vols");
	field("vols.len", 4); putU32(b, S | 0x80000000u);
	field("T", 4); putU32(b, T);
	std::vector<uint32_t> nameOff;
	uint32_t o = 0;
	for (auto& m : ms) { nameOff.push_back(o); b.insert(b.end(), m.name.begin(), m.name.end()); b.push_back(0); o += static_cast<uint32_t>(m.name.size()) + 1; }
	for (auto& n : surplusNames) { b.insert(b.end(), n.begin(), n.end()); b.push_back(0); }
	while (b.size() < 24 + S) b.push_back(0);
	field("voli.tag", 4); putTag(b, "voli");
	field("voli.len", 4); putU32(b, L | 0x80000000u);
	uint32_t H = 32 + S + I;
	im.headerEnd = H;
	uint32_t off = H;
	for (uint32_t i = 0; i < n; ++i) {
		im.blockOffsets.push_back(off);
		std::string p = "e" + std::to_string(i) + ".";
		field(p + "nameOff", 4); putU32(b, nameOff[i]);
		field(p + "blockOff", 4); putU32(b, off);
		field(p + "size", 4); putU32(b, ms[i].size);
		field(p + "kind", 2); putU16(b, ms[i].kind);
		off = pad4(off + 8 + static_cast<uint32_t>(ms[i].stored.size()));
	}
	for (uint32_t k = 0; k < spareSlots; ++k) {
		std::string p = "spare" + std::to_string(k) + ".";
		field(p + "nameOff", 4); putU32(b, 0xFFFFFFFFu);
		putU32(b, 0); putU32(b, 0); putU16(b, 0);
	}
	while (b.size() < H) b.push_back(0);
	for (uint32_t i = 0; i < n; ++i) {
		std::string p = "b" + std::to_string(i) + ".";
		field(p + "tag", 4); putTag(b, "VBLK");
		field(p + "len", 4); putU32(b, static_cast<uint32_t>(ms[i].stored.size()) | 0x80000000u);
		b.insert(b.end(), ms[i].stored.begin(), ms[i].stored.end());
		while (b.size() % 4) b.push_back(0);
	}
	return im;
}

// A format-conforming VOL too large to hold in memory: members with virtualLen[i] != 0 are stored blocks of that many zero bytes
// (holes of a sparse file). Returns the materialised pieces (header; block headers; small payloads) with their file offsets.
struct VolSparseImage {
	std::vector<std::pair<uint64_t, std::vector<uint8_t>>> pieces;
	std::vector<uint64_t> blockOffsets;
	uint64_t total = 0;
	bool representable = true; // every block offset fits the 32-bit index field
};
inline VolSparseImage encodeVolSparse(const std::vector<VolMember>& ms, const std::vector<uint64_t>& virtualLen) {
	VolSparseImage im;
	std::vector<uint8_t> b;
	uint32_t T = 0;
	for (auto& m : ms) T += static_cast<uint32_t>(m.name.size()) + 1;
	uint32_t S = pad4(4 + T), n = static_cast<uint32_t>(ms.size()), L = 14 * n, I = pad4(L);
	putTag(b, "VOL "); putU32(b, (S + I + 24) | 0x80000000u);
	putTag(b, "volh"); putU32(b, 0x80000000u);
	putTag(b, "vols"); putU32(b, S | 0x80000000u);
	putU32(b, T);
	std::vector<uint32_t> nameOff;
	uint32_t o = 0;
	for (auto& m : ms) { nameOff.push_back(o); b.insert(b.end(), m.name.begin(), m.name.end()); b.push_back(0); o += static_cast<uint32_t>(m.name.size()) + 1; }
	while (b.size() < 24 + S) b.push_back(0);
	putTag(b, "voli"); putU32(b, L | 0x80000000u);
	uint64_t off = 32ull + S + I;
	for (uint32_t i = 0; i < n; ++i) {
		uint64_t len = virtualLen[i] ? virtualLen[i] : ms[i].stored.size();
		im.blockOffsets.push_back(off);
		if (off > 0xFFFFFFFFull || len > 0x7FFFFFFFull) im.representable = false;
		putU32(b, nameOff[i]); putU32(b, static_cast<uint32_t>(off)); putU32(b, virtualLen[i] ? static_cast<uint32_t>(virtualLen[i]) : ms[i].size); putU16(b, ms[i].kind);
		off = (off + 8 + len + 3) & ~3ull;
	}
	while (b.size() < 32ull + S + I) b.push_back(0);
	im.pieces.push_back({0, b});
	for (uint32_t i = 0; i < n; ++i) {
		uint64_t len = virtualLen[i] ? virtualLen[i] : ms[i].stored.size();
		std::vector<uint8_t> blk;
		putTag(blk, "VBLK"); putU32(blk, static_cast<uint32_t>(len) | 0x80000000u);
		if (!virtualLen[i]) blk.insert(blk.end(), ms[i].stored.begin(), ms[i].stored.end());
		im.pieces.push_back({im.blockOffsets[i], blk});
	}
	im.total = off;
	return im;
}

struct VolEntry { uint32_t nameOff, blockOff, size; uint16_t kind; };
struct VolParse {
	std::vector<std::string> problems; // "clause: text"
	std::vector<std::string> names;
	std::vector<VolEntry> entries;     // valid entries only
	std::vector<std::vector<uint8_t>> stored;
	uint32_t S = 0, T = 0, L = 0, H = 0;
	bool ok() const { return problems.empty(); }
};

// Strict conformance parse of a VOL image.
inline VolParse decodeVol(const std::vector<uint8_t>& b) {
	VolParse p;
	auto bad = [&](const std::string& clause, const std::string& m) { p.problems.push_back(clause + ": " + m); };
	auto tagIs = [&](size_t off, const char* t) { return off + 4 <= b.size() && memcmp(b.data() + off, t, 4) == 0; };
	if (b.size() < 32) { bad("tiling", "file shorter than the fixed header (" + std::to_string(b.size()) + " bytes)"); return p; }
	if (!tagIs(0, "VOL ")) bad("tiling", "missing 'VOL ' tag");
	if (!tagIs(8, "volh")) bad("tiling", "missing 'volh' tag at 8");
	if (!tagIs(16, "vols")) bad("tiling", "missing 'vols' tag at 16");
	uint32_t vol = getU32(b, 4), volh = getU32(b, 12), vols = getU32(b, 20);
	if (!(vol >> 31) || !(volh >> 31) || !(vols >> 31)) bad("tiling", "a header section does not carry the 4-byte padding flag");
	if ((volh & 0x7fffffffu) != 0) bad("tiling", "volh length is not 0");
	p.S = vols & 0x7fffffffu;
	p.T = getU32(b, 24);
	if (!p.problems.empty()) return p;
	if (p.S % 4) bad("tiling", "vols length " + std::to_string(p.S) + " is not a multiple of 4");
	if (static_cast<uint64_t>(p.T) + 4 > p.S) { bad("tiling", "name table (" + std::to_string(p.T) + " bytes) does not fit the vols section (" + std::to_string(p.S) + ")"); return p; }
	if (p.S != pad4(4 + p.T)) bad("tiling", "vols length " + std::to_string(p.S) + " is not the name table length + 4 rounded up to 4 (" + std::to_string(pad4(4 + p.T)) + ")");
	if (static_cast<uint64_t>(24) + p.S + 8 > b.size()) { bad("tiling", "file ends inside the vols section"); return p; }
	for (size_t i = 28 + p.T; i < 24 + p.S; ++i) if (b[i] != 0) { bad("tiling", "non-zero padding byte after the name table at offset " + std::to_string(i)); break; }
	size_t voliAt = 24 + p.S;
	if (!tagIs(voliAt, "voli")) { bad("tiling", "missing 'voli' tag at " + std::to_string(voliAt)); return p; }
	uint32_t voli = getU32(b, voliAt + 4);
	if (!(voli >> 31)) bad("tiling", "voli section does not carry the 4-byte padding flag");
	p.L = voli & 0x7fffffffu;
	uint32_t I = pad4(p.L);
	p.H = 32 + p.S + I;
	if ((vol & 0x7fffffffu) != p.S + I + 24) bad("tiling", "'VOL ' length " + std::to_string(vol & 0x7fffffffu) + " != padded name table " + std::to_string(p.S) + " + padded index " + std::to_string(I) + " + 24");
	if (p.H > b.size()) { bad("tiling", "file ends inside the index section"); return p; }
	if (p.L % 14) bad("tiling", "index section length " + std::to_string(p.L) + " is not a multiple of the 14-byte entry");
	size_t slots = p.L / 14;
	size_t e0 = voliAt + 8;
	size_t nvalid = 0;
	for (; nvalid < slots; ++nvalid) if (getU32(b, e0 + 14 * nvalid) == 0xFFFFFFFFu) break;
	for (size_t i = e0 + 14 * slots; i < p.H; ++i) if (b[i] != 0) { bad("tiling", "non-zero padding byte after the index at offset " + std::to_string(i)); break; }
	// names
	std::vector<uint32_t> offs;
	{
		uint32_t o = 0;
		while (o < p.T) {
			size_t start = 28 + o, end = start;
			while (end < 28 + p.T && b[end] != 0) ++end;
			if (end >= 28 + p.T) { bad("names", "last name is not NUL-terminated inside the name table"); break; }
			offs.push_back(o);
			p.names.emplace_back(reinterpret_cast<const char*>(b.data() + start), end - start);
			o = static_cast<uint32_t>(end - 28 + 1);
		}
	}
	if (p.names.size() != nvalid) bad("names", std::to_string(p.names.size()) + " names in the name table but " + std::to_string(nvalid) + " valid index entries");
	for (size_t i = 0; i < nvalid; ++i) {
		VolEntry e{getU32(b, e0 + 14 * i), getU32(b, e0 + 14 * i + 4), getU32(b, e0 + 14 * i + 8), getU16(b, e0 + 14 * i + 12)};
		p.entries.push_back(e);
		if (i < offs.size() && e.nameOff != offs[i]) bad("names", "entry " + std::to_string(i) + " records name offset " + std::to_string(e.nameOff) + " but name " + std::to_string(i) + " starts at " + std::to_string(offs[i]));
	}
	// blocks
	uint64_t expectOff = p.H;
	for (size_t i = 0; i < p.entries.size(); ++i) {
		const VolEntry& e = p.entries[i];
		std::string id = "member " + std::to_string(i);
		if (e.blockOff % 4) bad("blocks", id + ": block offset " + std::to_string(e.blockOff) + " is not 4-byte aligned");
		if (e.blockOff != expectOff) bad("blocks", id + ": block offset " + std::to_string(e.blockOff) + " but blocks are contiguous only if it is " + std::to_string(expectOff));
		if (static_cast<uint64_t>(e.blockOff) + 8 > b.size()) { bad("blocks", id + ": block header lies outside the file"); p.stored.emplace_back(); break; }
		if (!tagIs(e.blockOff, "VBLK")) bad("blocks", id + ": no 'VBLK' tag at its block offset");
		uint32_t bl = getU32(b, e.blockOff + 4);
		if (!(bl >> 31)) bad("blocks", id + ": block header lacks the padding flag");
		uint32_t len = bl & 0x7fffffffu;
		if (e.kind == 0x100 && len != e.size) bad("blocks", id + ": block length " + std::to_string(len) + " != index size " + std::to_string(e.size));
		uint64_t dataEnd = static_cast<uint64_t>(e.blockOff) + 8 + len;
		if (dataEnd > b.size()) { bad("blocks", id + ": block data runs past end of file"); p.stored.emplace_back(); break; }
		p.stored.emplace_back(b.begin() + e.blockOff + 8, b.begin() + static_cast<long>(dataEnd));
		uint64_t padEnd = (dataEnd + 3) & ~3ull;
		if (padEnd > b.size()) bad("blocks", id + ": padding after the block is missing (file ends at " + std::to_string(b.size()) + ", padded block ends at " + std::to_string(padEnd) + ")");
		else for (uint64_t k = dataEnd; k < padEnd; ++k) if (b[k] != 0) { bad("blocks", id + ": non-zero block padding"); break; }
		expectOff = padEnd;
	}
	if (p.problems.empty() && expectOff != b.size()) bad("blocks", "file has " + std::to_string(b.size()) + " bytes but the last block ends at " + std::to_string(expectOff));
	// order: a case-insensitive binary search must find every member
	for (size_t i = 0; i < p.names.size(); ++i) {
		size_t lo = 0, hi = p.names.size();
		bool found = false;
		while (lo < hi) {
			size_t mid = (lo + hi) / 2;
			int c = nameCompare(p.names[mid], p.names[i]);
			if (c == 0) { found = (mid == i) || nameCompare(p.names[mid], p.names[i]) == 0; break; }
			if (c < 0) lo = mid + 1; else hi = mid;
		}
		if (!found) { bad("search-order", "binary search by lower-cased name does not find member " + std::to_string(i) + " '" + p.names[i] + "'"); break; }
	}
	for (size_t i = 1; i < p.names.size(); ++i) if (nameCompare(p.names[i - 1], p.names[i]) >= 0) { bad("search-order", "names " + std::to_string(i - 1) + " and " + std::to_string(i) + " are not in strictly ascending case-insensitive order"); break; }
	return p;
}

}} // namespace

// Independent LZHUF-style codec for the VOL "LZH" member format (DESIGN.md Appendix A), written in the
// classical son/prnt/freq table form. Shares no code with /repo/src/Archive.
//   4 KiB ring initialised to spaces, 314 symbols (256 literals + match lengths 3..60), adaptive
//   Huffman tree without rebuild (capacity: root frequency may not exceed 65535), match positions
//   coded with the d_code/d_len tables, bits MSB first, bits past the end read as 0, end-of-input test
//   after each symbol.
#pragma once
#include "../kernel/core.h"
#include <cstdint>
#include <vector>

namespace sim { namespace ref {

namespace lzh {
const int N = 4096, F = 60, THRESHOLD = 2;
const int N_CHAR = 256 - THRESHOLD + F; // 314
const int T = N_CHAR * 2 - 1;           // 627
const int R = T - 1;                    // 626 root

struct Tree {
	unsigned freq[T + 1];
	int prnt[T + N_CHAR];
	int son[T];
	Tree() {
		for (int i = 0; i < N_CHAR; ++i) { freq[i] = 1; son[i] = i + T; prnt[i + T] = i; }
		int i = 0, j = N_CHAR;
		while (j <= R) { freq[j] = freq[i] + freq[i + 1]; son[j] = i; prnt[i] = prnt[i + 1] = j; i += 2; ++j; }
		freq[T] = 0xffffffffu; // sentinel
		prnt[R] = 0;
	}
	bool atCapacity() const { return freq[R] >= 0xffffu; }
	void update(int c) {
		c = prnt[c + T];
		do {
			unsigned k = ++freq[c];
			int l = c + 1;
			if (k > freq[l]) {
				while (k > freq[++l]) {}
				--l;
				freq[c] = freq[l];
				freq[l] = k;
				int i = son[c];
				prnt[i] = l;
				if (i < T) prnt[i + 1] = l;
				int j = son[l];
				son[l] = i;
				prnt[j] = c;
				if (j < T) prnt[j + 1] = c;
				son[c] = j;
				c = l;
			}
		} while ((c = prnt[c]) != 0);
	}
};

inline void posTables(unsigned char* d_code, unsigned char* d_len) {
	int b = 0;
	auto fill = [&](int count, int firstCode, int per, int len) { for (int k = 0; k < count; ++k, ++b) { d_code[b] = static_cast<unsigned char>(firstCode + k / per); d_len[b] = static_cast<unsigned char>(len); } };
	fill(32, 0, 32, 3);
	fill(48, 1, 16, 4);
	fill(64, 4, 8, 5);
	fill(48, 12, 4, 6);
	fill(48, 24, 2, 7);
	fill(16, 48, 1, 8);
}
} // namespace lzh

struct LzhDecoded {
	std::vector<uint8_t> out;
	bool capacityError = false;
	size_t codes = 0;           // symbols decoded (and updated) successfully
	std::vector<uint32_t> codeEnd; // output length after each code (only filled when wantCodeEnds)
};

inline LzhDecoded lzhDecode(const std::vector<uint8_t>& in, bool wantCodeEnds = false, size_t maxOut = SIZE_MAX) {
	using namespace lzh;
	LzhDecoded d;
	Tree t;
	unsigned char d_code[256], d_len[256];
	posTables(d_code, d_len);
	std::vector<uint8_t> ring(N, 0x20);
	size_t r = 0;
	const uint64_t nbits = static_cast<uint64_t>(in.size()) * 8;
	uint64_t pos = 0;
	auto getBit = [&]() -> int { if (pos >= nbits) return 0; int b = (in[pos >> 3] >> (7 - (pos & 7))) & 1; ++pos; return b; };
	auto get8 = [&]() -> int {
		if (pos >= nbits) return 0;
		int v = 0;
		for (int i = 0; i < 8; ++i) { uint64_t p = pos + static_cast<uint64_t>(i); int b = p < nbits ? (in[p >> 3] >> (7 - (p & 7))) & 1 : 0; v = (v << 1) | b; }
		pos += 8;
		return v;
	};
	do {
		int c = t.son[R];
		while (c < T) { c += getBit(); c = t.son[c]; }
		c -= T;
		if (t.atCapacity()) { d.capacityError = true; break; }
		t.update(c);
		if (c < 256) {
			ring[r] = static_cast<uint8_t>(c);
			r = (r + 1) & (N - 1);
			d.out.push_back(static_cast<uint8_t>(c));
		} else {
			int i = get8();
			unsigned hi = d_code[i];
			int j = d_len[i] - 2;
			while (j--) i = (i << 1) + getBit();
			unsigned position = (hi << 6) | (static_cast<unsigned>(i) & 0x3f);
			size_t s = (r - position - 1) & (N - 1);
			int len = c - 253;
			for (int k = 0; k < len; ++k) {
				uint8_t ch = ring[(s + static_cast<size_t>(k)) & (N - 1)];
				ring[r] = ch;
				r = (r + 1) & (N - 1);
				d.out.push_back(ch);
			}
		}
		++d.codes;
		if (wantCodeEnds) d.codeEnd.push_back(static_cast<uint32_t>(d.out.size()));
		if (d.out.size() >= maxOut) break;
	} while (pos < nbits);
	return d;
}

struct LzhToken { bool match; uint8_t lit; uint16_t len; uint16_t pos; };
typedef std::vector<LzhToken> LzhTokens;

// Encode a token list. Stops before a token whose tree update would exceed the counter capacity.
// uncapped: keep encoding past that point (32-bit counters), producing a stream that NEEDS more updates than 16-bit counters hold.
inline int& lzhLongestCodeBits() { static int m = 0; return m; } // of the last lzhEncode call
inline std::vector<uint8_t> lzhEncode(const LzhTokens& toks, size_t* encodedTokens = nullptr, bool uncapped = false) {
	lzhLongestCodeBits() = 0;
	using namespace lzh;
	Tree t;
	unsigned char d_code[256], d_len[256];
	posTables(d_code, d_len);
	unsigned p_code[64], p_len[64];
	for (int b = 255; b >= 0; --b) { p_len[d_code[b]] = d_len[b]; p_code[d_code[b]] = static_cast<unsigned>(b) >> (8 - d_len[b]); }
	std::vector<uint8_t> out;
	int nbit = 0;
	auto putBit = [&](int b) { if (nbit == 0) out.push_back(0); if (b) out.back() |= static_cast<uint8_t>(0x80 >> nbit); nbit = (nbit + 1) & 7; };
	auto putBits = [&](unsigned v, int n) { for (int i = n - 1; i >= 0; --i) putBit((v >> i) & 1); };
	size_t done = 0;
	for (auto& tk : toks) {
		if (!uncapped && t.atCapacity()) break;
		int c = tk.match ? 253 + tk.len : tk.lit;
		// path leaf -> root, emitted root -> leaf; a node's index parity says left (even) / right (odd)
		int k = t.prnt[c + T];
		int bits[700], nb = 0;
		while (k != R) { bits[nb++] = k & 1; k = t.prnt[k]; }
		if (nb > lzhLongestCodeBits()) lzhLongestCodeBits() = nb;
		for (int i = nb - 1; i >= 0; --i) putBit(bits[i]);
		t.update(c);
		if (tk.match) {
			unsigned hi = tk.pos >> 6;
			putBits(p_code[hi], static_cast<int>(p_len[hi]));
			putBits(tk.pos & 0x3f, 6);
		}
		++done;
	}
	if (encodedTokens) *encodedTokens = done;
	return out;
}

// What a token list expands to (the ring starts as 4096 spaces).
inline std::vector<uint8_t> expandTokens(const LzhTokens& toks) {
	std::vector<uint8_t> out;
	for (auto& tk : toks) {
		if (!tk.match) { out.push_back(tk.lit); continue; }
		for (int k = 0; k < tk.len; ++k) {
			long s = static_cast<long>(out.size()) - static_cast<long>(tk.pos) - 1;
			out.push_back(s < 0 ? 0x20 : out[static_cast<size_t>(s)]);
		}
	}
	return out;
}

// A valid (seeded, deliberately non-greedy) LZ77 parse of the payload: expandTokens(tokenize(p)) == p.
inline LzhTokens tokenize(const std::vector<uint8_t>& p, uint64_t seed) {
	LzhTokens toks;
	Rng r(seed ^ 0x6c7a68);
	size_t i = 0;
	auto at = [&](long idx) -> int { return idx < 0 ? 0x20 : p[static_cast<size_t>(idx)]; };
	while (i < p.size()) {
		bool tryMatch = r.chance(3, 4) && p.size() - i >= 3;
		LzhToken best{false, p[i], 0, 0};
		if (tryMatch) {
			int tries = 24;
			size_t bestLen = 0;
			while (tries--) {
				// sample a distance class first so far positions are reached too
				unsigned dist;
				switch (r.below(6)) { case 0: dist = 1 + static_cast<unsigned>(r.below(64)); break; case 1: dist = 1 + static_cast<unsigned>(r.below(256)); break; case 2: dist = 1 + static_cast<unsigned>(r.below(1024)); break; default: dist = 1 + static_cast<unsigned>(r.below(4096)); break; }
				size_t maxLen = p.size() - i < 60 ? p.size() - i : 60;
				size_t l = 0;
				// overlapping copies read bytes this very match produces
				while (l < maxLen && at(static_cast<long>(i + l) - static_cast<long>(dist)) == p[i + l]) ++l;
				if (l >= 3 && (l > bestLen || (l == bestLen && r.chance(1, 2)))) { bestLen = l; best = LzhToken{true, 0, static_cast<uint16_t>(l), static_cast<uint16_t>(dist - 1)}; }
			}
			if (best.match && r.chance(1, 4) && best.len > 3) best.len = static_cast<uint16_t>(3 + r.below(best.len - 2)); // not always maximal
		}
		toks.push_back(best);
		i += best.match ? best.len : 1;
	}
	return toks;
}

// Token lists dominated by one symbol (a literal or one match length) with probability num/den; the rest as randomTokens.
inline LzhTokens skewedTokens(uint64_t seed, size_t n, uint64_t num, uint64_t den, bool dominantIsMatch) {
	LzhTokens toks;
	Rng r(seed ^ 0x736b6577);
	LzhToken dom = dominantIsMatch ? LzhToken{true, 0, static_cast<uint16_t>(3 + r.below(58)), static_cast<uint16_t>(r.below(64))} : LzhToken{false, static_cast<uint8_t>(r.below(256)), 0, 0};
	for (size_t i = 0; i < n; ++i) {
		if (r.chance(num, den)) { toks.push_back(dom); continue; }
		if (r.chance(2, 3)) toks.push_back(LzhToken{false, static_cast<uint8_t>(r.chance(1, 2) ? r.below(256) : 'a' + r.below(6)), 0, 0});
		else { unsigned hi = static_cast<unsigned>(r.below(64)); toks.push_back(LzhToken{true, 0, static_cast<uint16_t>(3 + r.below(58)), static_cast<uint16_t>((hi << 6) | r.below(64))}); }
	}
	return toks;
}

// Token lists whose symbol frequencies grow like the Fibonacci numbers: the shape that makes a Huffman tree as deep as it can get for
// a given number of codes (the counts are never rescaled, so depths beyond 16 and 18 are reachable below the counter capacity). The
// frequent symbols come first, interleaved; then symbols seen never or rarely before, whose codes are the long ones.
inline LzhTokens fibonacciTokens(uint64_t seed, size_t levels, size_t tail, uint64_t base = 1) {
	LzhTokens toks;
	Rng r(seed ^ 0x666962);
	std::vector<LzhToken> sym;
	std::vector<uint64_t> left;
	uint64_t a = base, b = base; // base > 1: the chain starts above the weight of all the symbols never used (each counts 1 from the start)
	for (size_t j = 0; j < levels; ++j) {
		if (r.chance(1, 5)) sym.push_back(LzhToken{true, 0, static_cast<uint16_t>(3 + (j * 7 + seed) % 58), static_cast<uint16_t>(r.below(64))});
		else sym.push_back(LzhToken{false, static_cast<uint8_t>((seed + j * 11) & 0xff), 0, 0});
		left.push_back(a);
		uint64_t c = a + b; a = b; b = c;
	}
	bool more = true;
	while (more) {
		more = false;
		// one round: every symbol emits a share proportional to what it still owes (keeps the running counts Fibonacci-like all the way)
		for (size_t j = levels; j-- > 0;) {
			uint64_t share = (left[j] + 15) / 16;
			for (uint64_t q = 0; q < share && left[j]; ++q, --left[j]) toks.push_back(sym[j]);
			if (left[j]) more = true;
		}
	}
	for (size_t i = 0; i < tail; ++i) {
		if (r.chance(3, 4)) toks.push_back(LzhToken{false, static_cast<uint8_t>(r.below(256)), 0, 0});
		else toks.push_back(LzhToken{true, 0, static_cast<uint16_t>(3 + r.below(58)), static_cast<uint16_t>((r.below(64) << 6) | r.below(64))});
	}
	return toks;
}

// Arbitrary token lists covering every match length and distance class.
inline LzhTokens randomTokens(uint64_t seed, size_t n) {
	LzhTokens toks;
	Rng r(seed ^ 0x746f6b);
	for (size_t i = 0; i < n; ++i) {
		if (r.chance(1, 2)) toks.push_back(LzhToken{false, static_cast<uint8_t>(r.chance(1, 2) ? r.below(256) : 'a' + r.below(6)), 0, 0});
		else {
			unsigned hi = static_cast<unsigned>(r.below(64));
			toks.push_back(LzhToken{true, 0, static_cast<uint16_t>(r.chance(1, 8) ? (r.chance(1, 2) ? 3 : 60) : 3 + r.below(58)), static_cast<uint16_t>((hi << 6) | r.below(64))});
		}
	}
	return toks;
}

}} // namespace

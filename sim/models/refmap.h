// Independent MAP / saved-game codec (DESIGN.md Appendix A). Shares no code with /repo/src/Map.
#pragma once
#include "refvol.h"
#include "../seams/damage.h"
#include <array>
#include <string>
#include <vector>

namespace sim { namespace ref {

struct RMap {
	uint32_t tag = 0x1011;
	int32_t savedGame = 0;
	uint32_t lgW = 0, H = 0;
	std::vector<uint32_t> tiles;               // H << lgW words
	int32_t clip[4] = {0, 0, 0, 0};
	struct Src { std::string name; uint32_t numTiles = 0; };
	std::vector<Src> srcs;
	std::vector<std::array<uint8_t, 8>> mappings;
	std::vector<std::array<uint8_t, 264>> terrains;
	uint32_t groupsUnknown = 0;
	struct Group { uint32_t w = 0, h = 0; std::vector<uint32_t> idx; std::string name; };
	std::vector<Group> groups;
	std::vector<uint8_t> trailing;

	uint64_t width() const { return 1ull << lgW; }
	// tile index of (x,y): 32-column blocks
	size_t tileIndex(uint64_t x, uint64_t y) const { return static_cast<size_t>(((x >> 5) * H + y) * 32 + (x & 31)); }
};

inline void putBytes(std::vector<uint8_t>& b, const void* p, size_t n) { const uint8_t* c = static_cast<const uint8_t*>(p); b.insert(b.end(), c, c + n); }
inline void putStr32(std::vector<uint8_t>& b, const std::string& s) { putU32(b, static_cast<uint32_t>(s.size())); b.insert(b.end(), s.begin(), s.end()); }

// The portion shared by maps and saved games: header .. terrain table.
inline void encodeMapBeginning(const RMap& m, std::vector<uint8_t>& b, std::vector<Field>* fields) {
	size_t base = b.size();
	(void)base;
	auto field = [&](const std::string& n, int w) { if (fields) fields->push_back(Field{n, b.size(), w}); };
	field("tag", 4); putU32(b, m.tag);
	field("savedGame", 4); putU32(b, static_cast<uint32_t>(m.savedGame));
	field("lgW", 4); putU32(b, m.lgW);
	field("H", 4); putU32(b, m.H);
	field("nSrc", 4); putU32(b, static_cast<uint32_t>(m.srcs.size()));
	for (uint32_t t : m.tiles) putU32(b, t);
	field("clip.x1", 4);
	for (int i = 0; i < 4; ++i) putU32(b, static_cast<uint32_t>(m.clip[i]));
	for (size_t i = 0; i < m.srcs.size(); ++i) {
		field("src" + std::to_string(i) + ".len", 4);
		putStr32(b, m.srcs[i].name);
		if (!m.srcs[i].name.empty()) { field("src" + std::to_string(i) + ".numTiles", 4); putU32(b, m.srcs[i].numTiles); }
	}
	field("marker", 10);
	const char marker[10] = {'T', 'I', 'L', 'E', ' ', 'S', 'E', 'T', 0x1a, 0};
	putBytes(b, marker, 10);
	field("nMappings", 4); putU32(b, static_cast<uint32_t>(m.mappings.size()));
	for (auto& x : m.mappings) putBytes(b, x.data(), 8);
	field("nTerrains", 4); putU32(b, static_cast<uint32_t>(m.terrains.size()));
	for (auto& x : m.terrains) putBytes(b, x.data(), 264);
}

inline std::vector<uint8_t> encodeMap(const RMap& m, std::vector<Field>* fields = nullptr, size_t* consumed = nullptr) {
	std::vector<uint8_t> b;
	auto field = [&](const std::string& n, int w) { if (fields) fields->push_back(Field{n, b.size(), w}); };
	encodeMapBeginning(m, b, fields);
	field("tag2", 4); putU32(b, m.tag);
	field("tag3", 4); putU32(b, m.tag);
	field("nGroups", 4); putU32(b, static_cast<uint32_t>(m.groups.size()));
	field("groupsUnknown", 4); putU32(b, m.groupsUnknown);
	for (size_t i = 0; i < m.groups.size(); ++i) {
		const auto& g = m.groups[i];
		std::string p = "g" + std::to_string(i) + ".";
		field(p + "w", 4); putU32(b, g.w);
		field(p + "h", 4); putU32(b, g.h);
		for (uint32_t x : g.idx) putU32(b, x);
		field(p + "nameLen", 4); putStr32(b, g.name);
	}
	if (consumed) *consumed = b.size();
	b.insert(b.end(), m.trailing.begin(), m.trailing.end());
	return b;
}

// What the library's writer must produce for this logical map: savedGame normalised to 0/1,
// group-header word regenerated (count - 1, or 0), no trailing bytes.
inline std::vector<uint8_t> encodeMapCanonical(RMap m) {
	m.savedGame = m.savedGame ? 1 : 0;
	m.groupsUnknown = m.groups.empty() ? 0 : static_cast<uint32_t>(m.groups.size()) - 1;
	m.trailing.clear();
	return encodeMap(m);
}

const size_t kSavedGameSkip = 0x1E025;

struct SavedUnits {
	uint32_t unitCount = 0, lastUsed = 0, nextFree = 0, firstFree = 0, unitSize = 120;
	uint32_t n1 = 0, n2 = 0;
	uint32_t nextUnit = 0, prevUnit = 0;
	uint64_t seed = 1;
	uint32_t fill = 0, rot = 0; // opaque regions: 0 pseudo-random, 1 the file's own version tag repeated (rotated by rot bytes), 2 zero
};

inline std::vector<uint8_t> encodeSavedGame(const RMap& m, const SavedUnits& u, std::vector<Field>* fields = nullptr, size_t* consumed = nullptr) {
	std::vector<uint8_t> b = prngBytes(u.seed, kSavedGameSkip);
	auto field = [&](const std::string& n, int w) { if (fields) fields->push_back(Field{n, b.size(), w}); };
	encodeMapBeginning(m, b, fields);
	field("tag2", 4); putU32(b, m.tag);
	field("unitCount", 4); putU32(b, u.unitCount);
	field("lastUsed", 4); putU32(b, u.lastUsed);
	field("nextFree", 4); putU32(b, u.nextFree);
	field("firstFree", 4); putU32(b, u.firstFree);
	field("unitSize", 4); putU32(b, u.unitSize);
	field("n1", 4); putU32(b, u.n1);
	field("n2", 4); putU32(b, u.n2);
	auto opaque = [&](uint64_t seed, size_t n) {
		if (u.fill == 0) return prngBytes(seed, n);
		std::vector<uint8_t> v(n, 0);
		if (u.fill == 1) for (size_t i = 0; i < n; ++i) v[i] = static_cast<uint8_t>(m.tag >> (8 * ((i + u.rot) % 4)));
		return v;
	};
	auto junk = opaque(u.seed ^ 0x55, static_cast<size_t>(u.n1) * 512 + static_cast<size_t>(u.n2) * 4);
	b.insert(b.end(), junk.begin(), junk.end());
	field("nextUnit", 4); putU32(b, u.nextUnit);
	field("prevUnit", 4); putU32(b, u.prevUnit);
	auto units = opaque(u.seed ^ 0x77, 2047 * 120);
	b.insert(b.end(), units.begin(), units.end());
	if (u.firstFree != u.nextFree) { auto fr = opaque(u.seed ^ 0x99, 2048 * 4); b.insert(b.end(), fr.begin(), fr.end()); }
	field("tag3", 4); putU32(b, m.tag);
	if (consumed) *consumed = b.size();
	b.insert(b.end(), m.trailing.begin(), m.trailing.end());
	return b;
}

}} // namespace

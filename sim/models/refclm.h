// Independent RIFF/WAVE writer+reader and CLM encoder / strict decoder (DESIGN.md Appendix A).
#pragma once
#include "refvol.h"
#include <string>
#include <vector>

namespace sim { namespace ref {

struct WaveFormat {
	uint16_t tag = 1, channels = 1;
	uint32_t rate = 22050, avg = 44100;
	uint16_t align = 2, bits = 16;
	bool operator==(const WaveFormat& o) const { return tag == o.tag && channels == o.channels && rate == o.rate && avg == o.avg && align == o.align && bits == o.bits; }
};
inline void putFormat(std::vector<uint8_t>& b, const WaveFormat& f) { putU16(b, f.tag); putU16(b, f.channels); putU32(b, f.rate); putU32(b, f.avg); putU16(b, f.align); putU16(b, f.bits); }
inline WaveFormat getFormat(const std::vector<uint8_t>& b, size_t off) { WaveFormat f; f.tag = getU16(b, off); f.channels = getU16(b, off + 2); f.rate = getU32(b, off + 4); f.avg = getU32(b, off + 8); f.align = getU16(b, off + 12); f.bits = getU16(b, off + 14); return f; }

struct WavChunk { std::string tag; std::vector<uint8_t> data; };
struct WavSpec {
	WaveFormat fmt;
	bool fmt16 = false;              // 16-byte fmt chunk (no cbSize) instead of 18
	uint16_t cbSize = 0;             // stored cbSize for the 18-byte form (ignored by CLM)
	std::vector<WavChunk> beforeFmt, between, afterData;
	std::vector<uint8_t> data;
	bool padLastData = false;        // an odd-length data chunk that ends the file carries its RIFF pad byte (what conforming writers emit)
};
struct WavField { std::string name; size_t off; int width; };

inline std::vector<uint8_t> encodeWav(const WavSpec& w, std::vector<WavField>* fields = nullptr) {
	std::vector<uint8_t> b;
	auto field = [&](const std::string& n, int wd) { if (fields) fields->push_back(WavField{n, b.size(), wd}); };
	field("RIFF.tag", 4); putTag(b, "RIFF");
	field("RIFF.size", 4); putU32(b, 0);
	field("WAVE.tag", 4); putTag(b, "WAVE");
	int cn = 0;
	auto chunk = [&](const WavChunk& c) { std::string p = "chunk" + std::to_string(cn++) + "."; field(p + "tag", 4); b.insert(b.end(), c.tag.begin(), c.tag.begin() + 4); field(p + "len", 4); putU32(b, static_cast<uint32_t>(c.data.size())); b.insert(b.end(), c.data.begin(), c.data.end()); };
	for (auto& c : w.beforeFmt) chunk(c);
	field("fmt.tag", 4); putTag(b, "fmt ");
	field("fmt.len", 4); putU32(b, w.fmt16 ? 16 : 18);
	putFormat(b, w.fmt);
	if (!w.fmt16) putU16(b, w.cbSize);
	for (auto& c : w.between) chunk(c);
	field("data.tag", 4); putTag(b, "data");
	field("data.len", 4); putU32(b, static_cast<uint32_t>(w.data.size()));
	b.insert(b.end(), w.data.begin(), w.data.end());
	if (w.padLastData && w.afterData.empty() && (w.data.size() & 1)) b.push_back(0);
	for (auto& c : w.afterData) chunk(c);
	uint32_t sz = static_cast<uint32_t>(b.size() - 8);
	for (int i = 0; i < 4; ++i) b[4 + i] = static_cast<uint8_t>(sz >> (8 * i));
	return b;
}

// Strict parse of a WAV as CLM extraction must produce it: RIFF/WAVE, 18-byte fmt with cbSize 0, data, EOF.
inline std::string checkExtractedWav(const std::vector<uint8_t>& b, const WaveFormat& fmt, const std::vector<uint8_t>& data) {
	if (b.size() < 46) return "file has only " + std::to_string(b.size()) + " bytes";
	if (memcmp(b.data(), "RIFF", 4) || memcmp(b.data() + 8, "WAVE", 4)) return "missing RIFF/WAVE tags";
	if (getU32(b, 4) + 8ull != b.size()) return "RIFF size " + std::to_string(getU32(b, 4)) + " + 8 != file size " + std::to_string(b.size());
	if (memcmp(b.data() + 12, "fmt ", 4)) return "no fmt chunk at offset 12";
	if (getU32(b, 16) != 18) return "fmt chunk length " + std::to_string(getU32(b, 16)) + ", expected 18";
	if (!(getFormat(b, 20) == fmt)) return "wave format differs from the archive's common format";
	if (getU16(b, 36) != 0) return "cbSize is not 0";
	if (memcmp(b.data() + 38, "data", 4)) return "no data chunk at offset 38";
	if (getU32(b, 42) != data.size()) return "data chunk length " + std::to_string(getU32(b, 42)) + ", expected " + std::to_string(data.size());
	if (b.size() != 46 + data.size()) return "file has " + std::to_string(b.size()) + " bytes, expected " + std::to_string(46 + data.size());
	if (!data.empty() && memcmp(b.data() + 46, data.data(), data.size())) return "audio bytes differ";
	return "";
}

struct ClmMember { std::string name; std::vector<uint8_t> data; uint64_t tailSeed = 0; }; // tailSeed != 0: stale bytes after the name's NUL terminator
struct ClmField { std::string name; size_t off; int width; };
struct ClmImage { std::vector<uint8_t> bytes; std::vector<ClmField> fields; };

inline const std::vector<uint8_t>& clmVersionString() {
	static std::vector<uint8_t> v = [] { std::vector<uint8_t> s; const char* t = "OP2 Clump File Version 1.0"; s.insert(s.end(), t, t + 26); s.push_back(0x1A); while (s.size() < 32) s.push_back(0); return s; }();
	return v;
}

inline ClmImage encodeClm(const WaveFormat& fmt, const std::vector<ClmMember>& ms) {
	ClmImage im;
	auto& b = im.bytes;
	auto field = [&](const std::string& n, int w) { im.fields.push_back(ClmField{n, b.size(), w}); };
	field("version", 32); b = clmVersionString();
	im.fields.push_back(ClmField{"fmt.tag", 32, 2});
	im.fields.push_back(ClmField{"fmt.channels", 34, 2});
	im.fields.push_back(ClmField{"fmt.rate", 36, 4});
	im.fields.push_back(ClmField{"fmt.avg", 40, 4});
	im.fields.push_back(ClmField{"fmt.align", 44, 2});
	im.fields.push_back(ClmField{"fmt.bits", 46, 2});
	im.fields.push_back(ClmField{"fmt.cbSize", 48, 2});
	putFormat(b, fmt);
	putU16(b, 0);
	field("unknown", 6);
	const uint8_t unk[6] = {0, 0, 0, 0, 1, 0};
	b.insert(b.end(), unk, unk + 6);
	field("count", 4); putU32(b, static_cast<uint32_t>(ms.size()));
	uint32_t off = 60 + 16 * static_cast<uint32_t>(ms.size());
	for (size_t i = 0; i < ms.size(); ++i) {
		std::string p = "e" + std::to_string(i) + ".";
		field(p + "name", 8);
		{
			// the name ends at the first NUL; what follows inside the 8-byte field is padding - zero, or (legal) leftovers of a packer's buffer
			std::vector<uint8_t> tail = ms[i].tailSeed ? prngBytes(ms[i].tailSeed, 8) : std::vector<uint8_t>(8, 0);
			for (size_t k = 0; k < 8; ++k) b.push_back(k < ms[i].name.size() ? static_cast<uint8_t>(ms[i].name[k]) : k == ms[i].name.size() ? 0 : tail[k]);
		}
		field(p + "offset", 4); putU32(b, off);
		field(p + "length", 4); putU32(b, static_cast<uint32_t>(ms[i].data.size()));
		off += static_cast<uint32_t>(ms[i].data.size());
	}
	for (auto& m : ms) b.insert(b.end(), m.data.begin(), m.data.end());
	return im;
}

struct ClmParse {
	std::vector<std::string> problems;
	WaveFormat fmt;
	std::vector<std::string> names;
	std::vector<uint32_t> offsets, lengths;
	bool ok() const { return problems.empty(); }
};

inline ClmParse decodeClm(const std::vector<uint8_t>& b) {
	ClmParse p;
	auto bad = [&](const std::string& m) { p.problems.push_back(m); };
	if (b.size() < 60) { bad("file shorter than the 60-byte header"); return p; }
	if (memcmp(b.data(), clmVersionString().data(), 32)) bad("version string differs from 'OP2 Clump File Version 1.0\\x1a' + 5 NUL");
	p.fmt = getFormat(b, 32);
	if (getU16(b, 48) != 0) bad("cbSize of the stored wave format is not 0");
	const uint8_t unk[6] = {0, 0, 0, 0, 1, 0};
	if (memcmp(b.data() + 50, unk, 6)) bad("the 6 bytes after the wave format are not 0 0 0 0 1 0");
	uint32_t n = getU32(b, 56);
	if (60ull + 16ull * n > b.size()) { bad("index of " + std::to_string(n) + " entries does not fit the file"); return p; }
	uint64_t expect = 60 + 16ull * n;
	for (uint32_t i = 0; i < n; ++i) {
		size_t e = 60 + 16 * static_cast<size_t>(i);
		size_t len = 0;
		while (len < 8 && b[e + len]) ++len;
		for (size_t k = len; k < 8; ++k) if (b[e + k]) { bad("entry " + std::to_string(i) + ": name field not NUL padded"); break; }
		p.names.emplace_back(reinterpret_cast<const char*>(b.data() + e), len);
		uint32_t off = getU32(b, e + 8), l = getU32(b, e + 12);
		p.offsets.push_back(off);
		p.lengths.push_back(l);
		if (off != expect) bad("entry " + std::to_string(i) + ": data offset " + std::to_string(off) + ", expected header + index + previous lengths = " + std::to_string(expect));
		expect += l;
	}
	if (expect != b.size()) bad("file has " + std::to_string(b.size()) + " bytes but the last member's data ends at " + std::to_string(expect));
	return p;
}

}} // namespace

#include "runner.h"
#include <cstdlib>
#include <cstdio>
#include <cstring>
#include <stdexcept>

// Sanitizer reports must be distinguishable from ordinary exits: exit code 77, no leak checking
// (no property speaks about leaks), huge allocations return null so operator new can throw.
extern "C" __attribute__((used, visibility("default"))) const char* __asan_default_options() {
	return "exitcode=77:detect_leaks=0:allocator_may_return_null=1:abort_on_error=0:handle_abort=1:detect_stack_use_after_return=0:max_allocation_size_mb=8192";
}
extern "C" __attribute__((used, visibility("default"))) const char* __ubsan_default_options() {
	return "exitcode=77:halt_on_error=1:print_stacktrace=1:abort_on_error=0";
}

namespace sim { void installProcessHandlers(); }

int main(int argc, char** argv) {
	// the locale a run sees is part of its plan (os.LANG=..., clocale=...), never inherited from whoever started the check
	for (const char* k : {"LANG", "LANGUAGE", "LC_ALL", "LC_CTYPE", "LC_COLLATE", "LC_MESSAGES", "LC_NUMERIC", "LC_TIME", "LC_MONETARY"}) unsetenv(k);
	try {
		if (argc < 2) {
			fprintf(stderr, "usage: simrun run --property Cxx --tier quick|thorough [...] | replay <file> [--trace] | gen --property P --family F --index i [--tier t] [--seed s] | families\n");
			return 2;
		}
		std::string cmd = argv[1];
		if (cmd == "run") return sim::superviseMain(argc, argv);
		if (cmd == "replay") return sim::replayMain(argc, argv);
		if (cmd == "families") {
			for (auto* f : sim::allFamilies()) printf("%s\n", f->name().c_str());
			for (auto& p : sim::allProperties()) {
				printf("%s:", p.c_str());
				for (auto& part : sim::suiteFor(p)) printf(" %s(%llu/%llu)", part.family.c_str(), (unsigned long long)part.quick, (unsigned long long)part.thorough);
				printf("\n");
			}
			return 0;
		}
		if (cmd == "gen") {
			std::string prop, family;
			uint64_t index = 0, base = 1;
			bool thorough = false;
			for (int i = 2; i + 1 < argc; i += 2) {
				std::string a = argv[i], v = argv[i + 1];
				if (a == "--property") prop = v;
				else if (a == "--family") family = v;
				else if (a == "--index") index = sim::parseU64(v);
				else if (a == "--seed") base = sim::parseU64(v);
				else if (a == "--tier") thorough = (v == "thorough");
			}
			sim::Family* fam = sim::findFamily(family);
			if (!fam) throw std::runtime_error("unknown family " + family);
			uint64_t seed = sim::runSeed(base, prop, family, index);
			sim::Rng rng(seed);
			sim::g_genIndex = index;
			sim::Plan p = fam->generate(prop, rng, thorough);
			p.property = prop;
			p.family = family;
			p.seed = seed;
			p.index = index;
			fputs(p.str().c_str(), stdout);
			return 0;
		}
		fprintf(stderr, "simrun: unknown command %s\n", cmd.c_str());
		return 2;
	} catch (const std::exception& e) {
		fprintf(stderr, "simrun: %s\n", e.what());
		return 2;
	}
}

#pragma once
#include "core.h"
#include <string>
#include <vector>

namespace sim {

struct Part {
	std::string prop, family;
	uint64_t quick, thorough;
};
// suites.cpp: which scenario families decide which property, and how many runs per tier.
std::vector<Part> suiteFor(const std::string& prop);
std::string levelOf(const std::string& prop);        // "exploration" | "fault_enumeration"
std::vector<std::string> assumptionsOf(const std::string& prop);
std::string ruleOf(const std::string& prop);
void componentsOf(const std::string& prop, std::vector<std::string>& real, std::vector<std::string>& stub);
std::vector<std::string> allProperties();

uint64_t runSeed(uint64_t base, const std::string& prop, const std::string& family, uint64_t index);

struct RunResult {
	enum Kind { Ok, Violated, Foreign, HarnessError } kind = Ok;
	Violation v;
	uint64_t fp = 0, sched = 0;
	bool nontrivial = false;
	uint64_t evaluations = 0, nontrivialEvals = 0, distinctEvals = 0;
	std::map<std::string, uint64_t> counters;
	std::vector<std::string> events;
	std::string error;
};

// Execute one plan in this process under the simulated environment the plan's env line describes.
RunResult runPlan(Family* fam, const Plan& plan, bool trace, StatusSlot* slot);

int superviseMain(int argc, char** argv);
int replayMain(int argc, char** argv);

} // namespace sim

// Supervisor, worker pool, violation gating, minimisation, replay, evidence.
#include "runner.h"
#include "../seams/env.h"
#include <clocale>
#include <algorithm>
#include <cerrno>
#include <chrono>
#include <csignal>
#include <cstdio>
#include <cstdlib>
#include <cstring>
#include <fcntl.h>
#include <fstream>
#include <functional>
#include <poll.h>
#include <set>
#include <sstream>
#include <stdexcept>
#include <sys/mman.h>
#include <sys/stat.h>
#include <sys/time.h>
#include <sys/wait.h>
#include <unistd.h>
#include <unordered_set>

#ifdef SIM_COVERAGE
extern "C" int __llvm_profile_write_file(void);
#define SIM_FLUSH_COVERAGE() __llvm_profile_write_file()
#else
#define SIM_FLUSH_COVERAGE() ((void)0)
#endif

namespace sim {

void resetDirOrdinal();

static double nowS() {
	using namespace std::chrono;
	return duration<double>(steady_clock::now().time_since_epoch()).count();
}

uint64_t runSeed(uint64_t base, const std::string& prop, const std::string& family, uint64_t index) {
	return mix64(mix64(mix64(base, hashstr(prop)), hashstr(family)), index);
}

// ---------------------------------------------------------------------------------------------
// one run

static void watchdogHandler(int) {
	const char m[] = "\nSIMRUN-WATCHDOG: run exceeded its wall-clock budget\n";
	(void)!::syscall(1, 2, m, sizeof m - 1);
	_exit(79);
}

static void terminateHandler() {
	const char* what = "unknown";
	std::string keep;
	if (auto e = std::current_exception()) {
		try { std::rethrow_exception(e); }
		catch (const std::exception& ex) { keep = ex.what(); what = keep.c_str(); }
		catch (...) { what = "non-std exception"; }
	}
	if (g_alloc.injectionInFlight) {
		// The process ended on an INJECTED allocation failure (std::bad_alloc met a noexcept boundary). No property promises more than
		// that under memory exhaustion - dying on out-of-memory is what programs do - so this ends the run without a verdict.
		fprintf(stderr, "\nSIMRUN-OOM-TERMINATE: std::terminate on an injected allocation failure (%s)\n", what);
		fflush(stderr);
		_exit(80);
	}
	fprintf(stderr, "\nSIMRUN-TERMINATE: std::terminate called (%s)\n", what);
	fflush(stderr);
	_exit(78);
}

void installProcessHandlers() {
	std::set_terminate(terminateHandler);
	struct sigaction sa;
	memset(&sa, 0, sizeof sa);
	sa.sa_handler = watchdogHandler;
	sigaction(SIGALRM, &sa, nullptr);
}

RunResult runPlan(Family* fam, const Plan& plan, bool trace, StatusSlot* slot) {
	RunResult r;
	RunCtx ctx;
	ctx.prop = plan.property;
	ctx.trace = trace;
	ctx.slot = slot;
	if (slot) { slot->op = 0; slot->variant[0] = 0; }

	bool clocaleMissing = false;
	// process environment and C locale are environment too: os.NAME=value entries become environment variables for this run,
	// clocale=... the C locale (both restored afterwards; the process starts with every locale variable unset, see main)
	std::vector<std::string> osSet;
	for (auto& kv : plan.env) if (kv.first.rfind("os.", 0) == 0 && kv.first.size() > 3) { ::setenv(kv.first.c_str() + 3, unquoteToken(kv.second).c_str(), 1); osSet.push_back(kv.first.substr(3)); }
	std::string clocale = plan.envs("clocale", "");
	if (!clocale.empty() && !setlocale(LC_ALL, clocale.c_str())) clocaleMissing = true;
	// (in force before the prelude as well: state the library latches from the environment on first use is latched from THIS environment)
	processPrelude(); // before every plan, the same everywhere (sim/scen/prelude.cpp)
	disk::wipe();
	resetDirOrdinal();
	// environment
	g_fault = FaultCfg();
	g_fault.shortRead = static_cast<uint32_t>(plan.envu("short_read", 0));
	g_fault.shortWrite = static_cast<uint32_t>(plan.envu("short_write", 0));
	g_fault.eintr = static_cast<uint32_t>(plan.envu("eintr", 0));
	if (g_fault.eintr == 1) g_fault.eintr = 2;
	g_fault.readdirSeed = plan.envu("readdir", 0);
	g_fault.sink = plan.envu("sink", 0) != 0;
	if (plan.envu("iobudget", 0)) g_fault.ioBudget = plan.envu("iobudget", 0);
	unsigned char stackFill = static_cast<unsigned char>(plan.envu("stack", 0x5a));
	void* shift = heapShiftAcquire(static_cast<size_t>(plan.envu("shift", 0)));
	g_alloc.heapFill = static_cast<unsigned char>(plan.envu("heap", 0xa5));
	g_rawMemory = getenv("SIM_RAW_MEMORY") != nullptr;
	g_alloc.fill = !g_rawMemory;
	g_alloc.cap = static_cast<size_t>(plan.envu("memcap", 256ull << 20));
	g_alloc.capHits = 0;
	g_alloc.failCountdown = 0;
	g_alloc.injectedFailures = 0;
	if (clocaleMissing) ctx.counters["probe.clocale_not_available"]++;
	scribbleStack(stackFill);
	alarm(static_cast<unsigned>(plan.envu("watchdog", 60)));

	try {
		fam->execute(plan, ctx);
	} catch (const Violation& v) {
		g_fault.armed = false;
		r.v = v;
		std::string want = plan.property + ".";
		r.kind = (v.clause.compare(0, want.size(), want) == 0) ? RunResult::Violated : RunResult::Foreign;
	} catch (const std::exception& e) {
		g_fault.armed = false;
		r.kind = RunResult::HarnessError;
		r.error = std::string("exception escaped the scenario: ") + e.what();
	}
	alarm(0);
	g_fault.armed = false;
	for (auto& k : osSet) ::unsetenv(k.c_str());
	if (!clocale.empty()) setlocale(LC_ALL, "C");
	g_alloc.cap = SIZE_MAX;
	g_alloc.fill = false;
	heapShiftRelease(shift);
	if (g_fault.budgetExceeded && r.kind == RunResult::Ok) {
		r.kind = RunResult::HarnessError;
		r.error = "I/O step budget exceeded but the scenario did not report it";
	}
	ctx.counters["fault.short_read"] += g_fault.firedShortRead;
	ctx.counters["fault.short_write"] += g_fault.firedShortWrite;
	ctx.counters["fault.eintr"] += g_fault.firedEintr;
	ctx.counters["fault.readdir_perm"] += g_fault.firedReaddir;
	ctx.counters["fault.mem_cap"] += g_alloc.capHits;
	ctx.counters["fault.alloc_fail"] += g_alloc.injectedFailures;
	g_alloc.failCountdown = 0;
	ctx.counters["fault.sink_bytes"] += g_fault.sunkBytes;
	ctx.counters["intercepted_syscalls"] += g_fault.syscalls;
	ctx.counters["fault.mem_env"] += 1;
	r.fp = ctx.fp;
	r.sched = ctx.sched;
	r.nontrivial = ctx.nontrivial;
	r.evaluations = ctx.evaluations ? ctx.evaluations : 1;
	r.nontrivialEvals = ctx.evaluations ? ctx.nontrivialEvals : (ctx.nontrivial ? 1 : 0);
	r.distinctEvals = ctx.distinctEvals;
	r.counters = std::move(ctx.counters);
	r.events = std::move(ctx.events);
	disk::wipe();
	return r;
}

// ---------------------------------------------------------------------------------------------
// configuration

struct Config {
	std::string prop;
	bool thorough = false;
	uint64_t baseSeed = 1;
	int jobs = 16;
	std::string evidencePath, knownPath, replayDir, scratchBase, onlyFamily, fpLog;
	uint64_t countOverride = 0;
	uint64_t scalePermille = 1000; // --scale: run this fraction of every family's fixed count (second-compiler lane)
	std::string self;
	double shrinkBudgetS = 120;
	int shrinkBudgetCands = 400;
};

static Plan makePlan(const Config& cfg, const Part& part, uint64_t idx) {
	Family* fam = findFamily(part.family);
	if (!fam) throw std::runtime_error("unknown family " + part.family);
	uint64_t seed = runSeed(cfg.baseSeed, cfg.prop, part.family, idx);
	Rng rng(seed);
	g_genIndex = idx;
	Plan p = fam->generate(cfg.prop, rng, cfg.thorough);
	p.property = cfg.prop;
	p.family = part.family;
	p.seed = seed;
	p.index = idx;
	return p;
}

static void pinVariant(Plan& p, const std::string& variant) {
	if (variant.empty()) return;
	Plan tmp = Plan::parse("simrun-replay 1\n" + variant + "\n");
	if (!tmp.damage.empty()) p.damage = tmp.damage;
}

// ---------------------------------------------------------------------------------------------
// workers

static std::string oneLine(std::string s) {
	for (auto& c : s) if (c == '\n' || c == '\r') c = ' ';
	if (s.size() > 900) s.resize(900);
	return s;
}

struct Item { size_t part; uint64_t idx; };

static uint64_t partCount(const Config& cfg, const Part& p) {
	if (cfg.countOverride) return cfg.countOverride;
	uint64_t n = cfg.thorough ? p.thorough : p.quick;
	if (cfg.scalePermille != 1000) { n = n * cfg.scalePermille / 1000; if (n < 8) n = std::min<uint64_t>(8, cfg.thorough ? p.thorough : p.quick); }
	return n;
}

// global item k -> (part, idx)
static bool itemAt(const std::vector<uint64_t>& counts, uint64_t k, Item& out) {
	for (size_t p = 0; p < counts.size(); ++p) {
		if (k < counts[p]) { out.part = p; out.idx = k; return true; }
		k -= counts[p];
	}
	return false;
}

static void emitResult(FILE* out, const Item& it, const RunResult& r) {
	switch (r.kind) {
	case RunResult::Ok:
		fprintf(out, "R %zu %llu %llx %llx %d %llu %llu %llu\n", it.part, static_cast<unsigned long long>(it.idx),
		        static_cast<unsigned long long>(r.fp), static_cast<unsigned long long>(r.sched), r.nontrivial ? 1 : 0,
		        static_cast<unsigned long long>(r.evaluations), static_cast<unsigned long long>(r.nontrivialEvals),
		        static_cast<unsigned long long>(r.distinctEvals));
		break;
	case RunResult::Violated:
		fprintf(out, "V %zu %llu %s %zu |%s| %s\n", it.part, static_cast<unsigned long long>(it.idx), r.v.clause.c_str(), r.v.opIndex,
		        oneLine(r.v.variant).c_str(), oneLine(r.v.msg).c_str());
		break;
	case RunResult::Foreign:
		fprintf(out, "F %zu %llu %s\n", it.part, static_cast<unsigned long long>(it.idx), r.v.clause.c_str());
		break;
	case RunResult::HarnessError:
		fprintf(out, "E %zu %llu %s\n", it.part, static_cast<unsigned long long>(it.idx), oneLine(r.error).c_str());
		break;
	}
}

// A plan that changes process-global environment (os.* variables, the C locale) is executed in a PRISTINE process: a child of the
// zygote, which is forked from the worker before the worker has executed anything, so that the plan (its prelude included) is the
// first thing the library ever sees there - whatever the library latches from the environment on first use is latched from this
// plan's environment, exactly as in the fresh process that later gates and replays a violation. The child writes the ordinary
// result lines to the worker's pipe (the worker waits meanwhile). If the child does not end normally (sanitizer report, signal,
// watchdog), the worker executes the plan itself, so that crash handling stays where it is.
static bool wantsPristineProcess(const Plan& plan) {
	for (auto& kv : plan.env) if (kv.first.rfind("os.", 0) == 0 || kv.first == "clocale") return true;
	return false;
}
[[noreturn]] static void zygoteMain(const Config& cfg, const std::vector<Part>& parts, const std::vector<uint64_t>& counts, const std::string& root,
                                    int outFd, StatusSlot* slot, int reqFd, int ackFd) {
	for (;;) {
		uint64_t k = 0;
		ssize_t n = ::read(reqFd, &k, sizeof k);
		if (n != static_cast<ssize_t>(sizeof k)) _exit(0);
		pid_t gc = fork();
		if (gc == 0) {
			Item it;
			if (!itemAt(counts, k, it)) _exit(3);
			const Part& part = parts[it.part];
			Family* fam = findFamily(part.family);
			disk::enterScratch(root + "z");
			Plan plan = makePlan(cfg, part, it.idx);
			RunResult r = runPlan(fam, plan, false, slot);
			FILE* out = fdopen(dup(outFd), "w");
			if (!out) _exit(4);
			for (auto& c : r.counters) if (c.second) fprintf(out, "S %zu:%s %llu\n", it.part, c.first.c_str(), static_cast<unsigned long long>(c.second));
			fprintf(out, "S %zu:probe.plan_run_in_pristine_process 1\n", it.part);
			emitResult(out, it, r);
			fflush(out);
			disk::removeScratch();
			SIM_FLUSH_COVERAGE();
			_exit(0);
		}
		char ack = 0;
		if (gc > 0) { int st = 0; if (waitpid(gc, &st, 0) == gc && WIFEXITED(st) && WEXITSTATUS(st) == 0) ack = 1; }
		if (::write(ackFd, &ack, 1) != 1) _exit(0);
	}
}

[[noreturn]] static void workerMain(const Config& cfg, const std::vector<Part>& parts, const std::vector<uint64_t>& counts,
                                    int w, int W, uint64_t startK, int outFd, StatusSlot* slot) {
	installProcessHandlers();
	std::string root = cfg.scratchBase + "/w" + std::to_string(w);
	// stderr of this worker goes to a log the supervisor can read after a crash
	{
		std::string log = cfg.scratchBase + "/w" + std::to_string(w) + ".stderr";
		int fd = open(log.c_str(), O_WRONLY | O_CREAT | O_TRUNC, 0666);
		if (fd >= 0) { dup2(fd, 2); close(fd); }
	}
	int zreq[2] = {-1, -1}, zack[2] = {-1, -1};
	pid_t zy = -1;
	if (pipe(zreq) == 0 && pipe(zack) == 0) {
		zy = fork();
		if (zy == 0) { close(zreq[1]); close(zack[0]); zygoteMain(cfg, parts, counts, root, outFd, slot, zreq[0], zack[1]); }
		close(zreq[0]); close(zack[1]);
	}
	disk::enterScratch(root);
	FILE* out = fdopen(outFd, "w");
	std::map<std::string, uint64_t> acc;
	uint64_t sinceFlush = 0;
	auto flushCounters = [&]() {
		for (auto& c : acc) if (c.second) fprintf(out, "S %s %llu\n", c.first.c_str(), static_cast<unsigned long long>(c.second));
		acc.clear();
		sinceFlush = 0;
	};
	for (uint64_t k = startK;; k += static_cast<uint64_t>(W)) {
		Item it;
		if (!itemAt(counts, k, it)) break;
		const Part& part = parts[it.part];
		Family* fam = findFamily(part.family);
		slot->part = it.part;
		slot->index = it.idx;
		slot->phase = 1;
		alarm(120); // a generator that does not return is a harness fault (reported as such), not an endless check
		Plan plan = makePlan(cfg, part, it.idx);
		alarm(0);
		slot->phase = 2;
		if (zy > 0 && wantsPristineProcess(plan)) {
			flushCounters();
			fflush(out);
			char ack = 0;
			if (::write(zreq[1], &k, sizeof k) == static_cast<ssize_t>(sizeof k) && ::read(zack[0], &ack, 1) == 1 && ack == 1) { slot->phase = 3; continue; }
			// not ended normally over there: execute it here, where a dying run is accounted for
		}
		RunResult r = runPlan(fam, plan, false, slot);
		slot->phase = 3;
		for (auto& c : r.counters) acc[std::to_string(it.part) + ":" + c.first] += c.second;
		emitResult(out, it, r);
		if (++sinceFlush >= 64 || r.kind != RunResult::Ok) flushCounters();
		fflush(out);
	}
	flushCounters();
	if (zy > 0) { close(zreq[1]); int st = 0; waitpid(zy, &st, 0); }
	fprintf(out, "D\n");
	fflush(out);
	disk::removeScratch();
	SIM_FLUSH_COVERAGE();
	_exit(0);
}

// ---------------------------------------------------------------------------------------------
// fresh-process / forked execution of a single plan (gating and shrinking)

struct Outcome {
	enum Kind { Ok, Violated, Foreign, Crashed, Error } kind = Error;
	std::string clause;     // for Violated; "<prop>.crash" for Crashed
	std::string klass;      // crash class (sanitizer kind @ frame) or ""
	std::string msg;
	uint64_t fp = 0;
	size_t opIndex = 0;
	std::string rawStderr;
	bool sameFailure(const Outcome& o) const { return kind == o.kind && clause == o.clause && klass == o.klass; }
	bool failed() const { return kind == Violated || kind == Crashed; }
};

static std::string readAll(const std::string& path, size_t cap = 1 << 20) {
	std::ifstream f(path, std::ios::binary);
	std::string s((std::istreambuf_iterator<char>(f)), std::istreambuf_iterator<char>());
	if (s.size() > cap) s.resize(cap);
	return s;
}

static std::string stripDigits(std::string s) {
	std::string o;
	bool inNum = false;
	for (char c : s) {
		if ((c >= '0' && c <= '9') || (inNum && (c == 'x' || (c >= 'a' && c <= 'f')))) {
			if (!inNum) o.push_back('#');
			inNum = true;
		} else { inNum = false; o.push_back(c); }
	}
	return o;
}

static std::string baseName(const std::string& p) {
	auto s = p.rfind('/');
	return s == std::string::npos ? p : p.substr(s + 1);
}

// Parse a sanitizer / assertion / terminate report into "kind@frame".
std::string classifyCrash(const std::string& err, int status) {
	std::string kind, frame;
	std::istringstream is(err);
	std::string line;
	while (std::getline(is, line)) {
		size_t p;
		if (kind.empty() && (p = line.find("ERROR: AddressSanitizer: ")) != std::string::npos) {
			std::string rest = line.substr(p + 25);
			kind = "asan:" + rest.substr(0, rest.find_first_of(" \n"));
			while (!kind.empty() && kind.back() == ':') kind.pop_back();
		} else if (kind.empty() && (p = line.find(": runtime error: ")) != std::string::npos) {
			std::string msg = line.substr(p + 17);
			msg = stripDigits(msg);
			if (msg.size() > 60) msg.resize(60);
			for (auto& c : msg) if (c == ' ') c = '_';
			kind = "ubsan:" + msg;
			std::string loc = line.substr(0, p);
			auto c1 = loc.find(':');
			if (loc.find("/src/") != std::string::npos) frame = baseName(loc.substr(0, c1));
		} else if (kind.empty() && line.find("Assertion '") != std::string::npos && line.find("failed") != std::string::npos) {
			p = line.find("Assertion '");
			std::string a = line.substr(p + 11);
			a = a.substr(0, a.find('\''));
			for (auto& c : a) if (c == ' ') c = '_';
			kind = "assert:" + a;
		} else if (kind.empty() && line.find("SIMRUN-TERMINATE") != std::string::npos) {
			kind = "terminate";
		} else if (kind.empty() && line.find("SIMRUN-WATCHDOG") != std::string::npos) {
			kind = "hang";
		}
		if (frame.empty() && line.find("    #") != std::string::npos && (p = line.find(" in ")) != std::string::npos) {
			std::string rest = line.substr(p + 4);
			auto sp = rest.rfind(' ');
			if (sp != std::string::npos) {
				std::string func = rest.substr(0, sp), loc = rest.substr(sp + 1);
				if (loc.find("/src/") != std::string::npos && loc.find("/sim/") == std::string::npos) {
					auto paren = func.find('(');
					if (paren != std::string::npos) func.resize(paren);
					frame = baseName(loc.substr(0, loc.find(':'))) + ":" + func;
				}
			}
		}
	}
	if (kind.empty()) {
		if (WIFSIGNALED(status)) kind = "signal:" + std::to_string(WTERMSIG(status));
		else if (WIFEXITED(status) && WEXITSTATUS(status) == 79) kind = "hang";
		else if (WIFEXITED(status) && WEXITSTATUS(status) == 78) kind = "terminate";
		else kind = "exit:" + std::to_string(WIFEXITED(status) ? WEXITSTATUS(status) : -1);
	}
	return frame.empty() ? kind : kind + "@" + frame;
}

static Outcome parseResultLine(const std::string& out) {
	Outcome o;
	std::istringstream is(out);
	std::string line;
	while (std::getline(is, line)) {
		if (line.rfind("RESULT ", 0) != 0) continue;
		std::istringstream ls(line.substr(7));
		std::string kind, clause, fp, op;
		ls >> kind >> clause >> fp >> op;
		std::string rest;
		std::getline(ls, rest);
		o.clause = clause == "-" ? "" : clause;
		o.fp = strtoull(fp.c_str(), nullptr, 16);
		o.opIndex = static_cast<size_t>(strtoull(op.c_str(), nullptr, 10));
		o.msg = rest.size() > 1 ? rest.substr(1) : "";
		if (kind == "ok") o.kind = Outcome::Ok;
		else if (kind == "violation") o.kind = Outcome::Violated;
		else if (kind == "foreign") o.kind = Outcome::Foreign;
		else o.kind = Outcome::Error;
		return o;
	}
	o.kind = Outcome::Error;
	o.msg = "no RESULT line";
	return o;
}

static std::string resultLine(const RunResult& r) {
	const char* kind = r.kind == RunResult::Ok ? "ok" : r.kind == RunResult::Violated ? "violation" : r.kind == RunResult::Foreign ? "foreign" : "error";
	char b[64];
	snprintf(b, sizeof b, "%llx", static_cast<unsigned long long>(r.fp));
	std::string msg = r.kind == RunResult::HarnessError ? r.error : r.v.msg;
	return std::string("RESULT ") + kind + " " + (r.v.clause.empty() ? "-" : r.v.clause) + " " + b + " " + std::to_string(r.v.opIndex) + " " + oneLine(msg) + "\n";
}

// Execute a plan in a child: exec=true -> fresh process via /proc/self/exe replay; exec=false -> fork only.
static Outcome runInChild(const Config& cfg, const Plan& plan, bool exec, const std::string& tag) {
	std::string planFile = cfg.scratchBase + "/" + tag + ".replay";
	std::string errFile = cfg.scratchBase + "/" + tag + ".stderr";
	std::string childRoot = cfg.scratchBase + "/" + tag + ".d";
	{
		std::ofstream f(planFile);
		f << plan.str();
	}
	int pfd[2];
	if (pipe(pfd) != 0) throw std::runtime_error("pipe failed");
	pid_t pid = fork();
	if (pid < 0) throw std::runtime_error("fork failed");
	if (pid == 0) {
		close(pfd[0]);
		int efd = open(errFile.c_str(), O_WRONLY | O_CREAT | O_TRUNC, 0666);
		if (efd >= 0) { dup2(efd, 2); close(efd); }
		dup2(pfd[1], 1);
		close(pfd[1]);
		if (exec) {
			setenv("VERIF_SCRATCH_DIR", childRoot.c_str(), 1);
			execl(cfg.self.c_str(), cfg.self.c_str(), "replay", planFile.c_str(), static_cast<char*>(nullptr));
			_exit(71);
		}
		installProcessHandlers();
		Family* fam = findFamily(plan.family);
		if (!fam) _exit(72);
		disk::enterScratch(childRoot);
		RunResult r = runPlan(fam, plan, false, nullptr);
		std::string line = resultLine(r);
		(void)!::write(1, line.data(), line.size());
		disk::removeScratch();
		_exit(r.kind == RunResult::Ok ? 0 : r.kind == RunResult::HarnessError ? 2 : 1);
	}
	close(pfd[1]);
	std::string out;
	char buf[4096];
	for (;;) {
		ssize_t n = ::read(pfd[0], buf, sizeof buf);
		if (n < 0 && errno == EINTR) continue;
		if (n <= 0) break;
		out.append(buf, static_cast<size_t>(n));
	}
	close(pfd[0]);
	int status = 0;
	while (waitpid(pid, &status, 0) < 0 && errno == EINTR) {}
	Outcome o;
	bool normal = WIFEXITED(status) && (WEXITSTATUS(status) == 0 || WEXITSTATUS(status) == 1 || WEXITSTATUS(status) == 2);
	if (normal) {
		o = parseResultLine(out);
	} else {
		o.kind = Outcome::Crashed;
		o.clause = plan.property + ".crash";
		o.rawStderr = readAll(errFile);
		o.klass = classifyCrash(o.rawStderr, status);
		o.msg = "process died: " + o.klass;
	}
	// clean the child's scratch in case it died mid-run
	std::string cmd = "rm -rf '" + childRoot + "'";
	(void)!system(cmd.c_str());
	unlink(errFile.c_str());
	unlink(planFile.c_str());
	return o;
}

// ---------------------------------------------------------------------------------------------
// minimisation (ddmin over ops, then world lines, env, numeric arguments)

struct Shrinker {
	const Config& cfg;
	Outcome target;
	int cands = 0;
	double t0;
	Shrinker(const Config& c, const Outcome& t) : cfg(c), target(t), t0(nowS()) {}
	bool budgetLeft() const { return cands < cfg.shrinkBudgetCands && nowS() - t0 < cfg.shrinkBudgetS; }
	bool stillFails(const Plan& p) {
		++cands;
		Outcome o = runInChild(cfg, p, false, "shrink");
		return o.sameFailure(target);
	}
	void ddminLines(Plan& p, std::vector<Line> Plan::*field) {
		size_t n = (p.*field).size();
		size_t chunk = n / 2;
		if (chunk == 0 && n > 0) chunk = 1;
		while (chunk >= 1 && budgetLeft()) {
			bool removedAny = false;
			for (size_t start = 0; start < (p.*field).size() && budgetLeft();) {
				Plan q = p;
				auto& v = q.*field;
				size_t end = std::min(start + chunk, v.size());
				v.erase(v.begin() + static_cast<long>(start), v.begin() + static_cast<long>(end));
				if (stillFails(q)) { p = q; removedAny = true; }
				else start += chunk;
			}
			if (chunk == 1 && !removedAny) break;
			if (!removedAny) chunk /= 2;
			else if (chunk > (p.*field).size()) chunk = std::max<size_t>(1, (p.*field).size() / 2);
		}
	}
	static bool numeric(const std::string& s, std::string& prefix, uint64_t& v) {
		prefix.clear();
		std::string t = s;
		if (!t.empty() && t[0] == '~') { prefix = "~"; t = t.substr(1); }
		if (t.empty()) return false;
		for (size_t i = 0; i < t.size(); ++i) {
			char c = t[i];
			bool ok = (c >= '0' && c <= '9') || (i == 1 && c == 'x' && t[0] == '0') || (t.size() > 2 && t[1] == 'x' && ((c >= 'a' && c <= 'f') || (c >= 'A' && c <= 'F')));
			if (!ok) return false;
		}
		try { v = parseU64(t); } catch (...) { return false; }
		return true;
	}
	void shrinkNumbers(Plan& p, std::vector<Line> Plan::*field) {
		for (size_t li = 0; li < (p.*field).size() && budgetLeft(); ++li) {
			for (size_t ki = 0; ki < (p.*field)[li].kv.size() && budgetLeft(); ++ki) {
				std::string prefix;
				uint64_t v;
				const std::string key = (p.*field)[li].kv[ki].first;
				if (key == "seed" || key == "cseed") continue;
				if (!numeric((p.*field)[li].kv[ki].second, prefix, v) || v == 0) continue;
				for (uint64_t cand : {uint64_t(0), v / 2, v - 1}) {
					if (cand == v || !budgetLeft()) continue;
					Plan q = p;
					(q.*field)[li].kv[ki].second = prefix + std::to_string(cand);
					if (stillFails(q)) { p = q; break; }
				}
			}
		}
	}
	void shrinkEnv(Plan& p) {
		for (const char* k : {"short_read", "short_write", "eintr", "readdir", "shift"}) {
			if (!budgetLeft()) return;
			if (p.envu(k, 0) == 0) continue;
			Plan q = p;
			q.setenv(k, "0");
			if (stillFails(q)) p = q;
		}
	}
	Plan run(Plan p) {
		ddminLines(p, &Plan::ops);
		ddminLines(p, &Plan::world);
		shrinkEnv(p);
		shrinkNumbers(p, &Plan::ops);
		shrinkNumbers(p, &Plan::world);
		if (budgetLeft()) ddminLines(p, &Plan::ops);
		return p;
	}
};

// ---------------------------------------------------------------------------------------------
// known findings

struct Known { std::string prop, status, signature, what; };

static std::vector<Known> loadKnown(const std::string& path) {
	std::vector<Known> v;
	if (path.empty()) return v;
	std::ifstream f(path);
	std::string line;
	while (std::getline(f, line)) {
		if (line.empty()) continue;
		std::vector<std::string> t;
		size_t s = 0;
		for (;;) {
			size_t e = line.find('\t', s);
			t.push_back(line.substr(s, e == std::string::npos ? std::string::npos : e - s));
			if (e == std::string::npos) break;
			s = e + 1;
		}
		if (t.size() >= 4) v.push_back(Known{t[0], t[1], t[2], t[3]});
	}
	return v;
}

// ---------------------------------------------------------------------------------------------
// JSON helpers

static std::string jstr(const std::string& s) {
	std::string o = "\"";
	for (unsigned char c : s) {
		switch (c) {
		case '"': o += "\\\""; break;
		case '\\': o += "\\\\"; break;
		case '\n': o += "\\n"; break;
		case '\t': o += "\\t"; break;
		case '\r': o += "\\r"; break;
		default:
			if (c < 0x20 || c >= 0x7f) { char b[8]; snprintf(b, sizeof b, "\\u%04x", c); o += b; }
			else o.push_back(static_cast<char>(c));
		}
	}
	return o + "\"";
}
static std::string jarr(const std::vector<std::string>& v) {
	std::string o = "[";
	for (size_t i = 0; i < v.size(); ++i) o += (i ? ", " : "") + jstr(v[i]);
	return o + "]";
}

// ---------------------------------------------------------------------------------------------
// supervisor

struct Cand {
	size_t part;
	uint64_t idx;
	std::string clause, variant, msg;
	bool crashed;
};

struct PartAgg {
	uint64_t runs = 0, evaluations = 0, nontrivialRuns = 0, sweepDistinct = 0, foreign = 0;
	std::unordered_set<uint64_t> fps, scheds;
	std::map<std::string, uint64_t> counters;
};

int superviseMain(int argc, char** argv) {
	Config cfg;
	cfg.self = "/proc/self/exe";
	{
		char buf[4096];
		ssize_t n = readlink("/proc/self/exe", buf, sizeof buf - 1);
		if (n > 0) { buf[n] = 0; cfg.self = buf; }
	}
	for (int i = 2; i < argc; ++i) {
		std::string a = argv[i];
		auto next = [&]() -> std::string { if (i + 1 >= argc) throw std::runtime_error("missing value for " + a); return argv[++i]; };
		if (a == "--property") cfg.prop = next();
		else if (a == "--tier") cfg.thorough = (next() == "thorough");
		else if (a == "--seed") cfg.baseSeed = parseU64(next());
		else if (a == "--jobs") cfg.jobs = atoi(next().c_str());
		else if (a == "--evidence") cfg.evidencePath = next();
		else if (a == "--known") cfg.knownPath = next();
		else if (a == "--replay-dir") cfg.replayDir = next();
		else if (a == "--scratch") cfg.scratchBase = next();
		else if (a == "--family") cfg.onlyFamily = next();
		else if (a == "--count") cfg.countOverride = parseU64(next());
		else if (a == "--scale") cfg.scalePermille = parseU64(next());
		else if (a == "--fplog") cfg.fpLog = next();
		else throw std::runtime_error("unknown option " + a);
	}
	if (cfg.prop.empty()) throw std::runtime_error("--property required");
	if (cfg.jobs < 1) cfg.jobs = 1;
	if (cfg.jobs > 64) cfg.jobs = 64;
	if (cfg.scratchBase.empty()) {
		const char* s = getenv("VERIF_SCRATCH");
		std::string base = s && *s ? s : "/dev/shm";
		struct stat st;
		if (stat(base.c_str(), &st) != 0 || access(base.c_str(), W_OK) != 0) base = getenv("TMPDIR") ? getenv("TMPDIR") : "/tmp";
		cfg.scratchBase = base + "/simrun." + std::to_string(getpid());
	}
	if (cfg.replayDir.empty()) cfg.replayDir = "replays";
	disk::mkdirs(cfg.scratchBase);

	std::vector<Part> parts = suiteFor(cfg.prop);
	if (!cfg.onlyFamily.empty()) {
		std::vector<Part> f;
		for (auto& p : parts) if (p.family == cfg.onlyFamily) f.push_back(p);
		parts = f;
	}
	if (parts.empty()) throw std::runtime_error("no scenario family registered for " + cfg.prop);
	std::vector<uint64_t> counts;
	uint64_t total = 0;
	for (auto& p : parts) { counts.push_back(partCount(cfg, p)); total += counts.back(); }
	std::vector<Known> known = loadKnown(cfg.knownPath);

	double t0 = nowS();
	int W = cfg.jobs;
	if (static_cast<uint64_t>(W) > total) W = static_cast<int>(total ? total : 1);
	StatusSlot* slots = static_cast<StatusSlot*>(mmap(nullptr, sizeof(StatusSlot) * static_cast<size_t>(W), PROT_READ | PROT_WRITE, MAP_SHARED | MAP_ANONYMOUS, -1, 0));
	if (slots == MAP_FAILED) throw std::runtime_error("mmap failed");
	memset(slots, 0, sizeof(StatusSlot) * static_cast<size_t>(W));

	struct WorkerState { pid_t pid = -1; int fd = -1; std::string buf; bool done = false; uint64_t lastK = 0; bool haveLast = false; uint64_t startK = 0; int restarts = 0; };
	std::vector<WorkerState> ws(static_cast<size_t>(W));
	std::vector<PartAgg> agg(parts.size());
	std::vector<Cand> cands;
	std::vector<std::string> fpLines;
	std::vector<std::string> infraErrors;
	bool stopEarly = false;

	auto spawn = [&](int w, uint64_t startK) {
		int pfd[2];
		if (pipe(pfd) != 0) throw std::runtime_error("pipe failed");
		fflush(stdout);
		pid_t pid = fork();
		if (pid < 0) throw std::runtime_error("fork failed");
		if (pid == 0) {
			close(pfd[0]);
			for (auto& o : ws) if (o.fd >= 0) close(o.fd);
			workerMain(cfg, parts, counts, w, W, startK, pfd[1], &slots[w]);
		}
		close(pfd[1]);
		ws[static_cast<size_t>(w)].pid = pid;
		ws[static_cast<size_t>(w)].fd = pfd[0];
		ws[static_cast<size_t>(w)].buf.clear();
		ws[static_cast<size_t>(w)].done = false;
		ws[static_cast<size_t>(w)].startK = startK;
	};
	for (int w = 0; w < W; ++w) spawn(w, static_cast<uint64_t>(w));

	auto globalK = [&](size_t part, uint64_t idx) { uint64_t k = idx; for (size_t p = 0; p < part; ++p) k += counts[p]; return k; };

	auto handleLine = [&](WorkerState& st, const std::string& line) {
		if (line.empty()) return;
		std::istringstream is(line);
		char tag;
		is >> tag;
		if (tag == 'R') {
			size_t part; unsigned long long idx, ev, nev, dev; std::string fp, sc; int nt;
			is >> part >> idx >> fp >> sc >> nt >> ev >> nev >> dev;
			PartAgg& a = agg[part];
			a.runs++;
			a.evaluations += ev;
			if (nt) { a.nontrivialRuns++; a.fps.insert(strtoull(fp.c_str(), nullptr, 16)); }
			a.scheds.insert(strtoull(sc.c_str(), nullptr, 16));
			a.sweepDistinct += dev;
			if (!cfg.fpLog.empty()) { char b[160]; snprintf(b, sizeof b, "%02zu %010llu %s %s %d %llu", part, idx, fp.c_str(), sc.c_str(), nt, ev); fpLines.push_back(b); }
			st.lastK = globalK(part, idx); st.haveLast = true;
		} else if (tag == 'V') {
			size_t part; unsigned long long idx; std::string clause; size_t op;
			is >> part >> idx >> clause >> op;
			std::string rest;
			std::getline(is, rest);
			std::string variant, msg;
			auto b1 = rest.find('|');
			auto b2 = rest.find('|', b1 == std::string::npos ? 0 : b1 + 1);
			if (b1 != std::string::npos && b2 != std::string::npos) { variant = rest.substr(b1 + 1, b2 - b1 - 1); msg = rest.substr(b2 + 1); }
			agg[part].runs++;
			cands.push_back(Cand{part, idx, clause, variant, msg, false});
			st.lastK = globalK(part, idx); st.haveLast = true;
		} else if (tag == 'F') {
			size_t part; unsigned long long idx; std::string clause;
			is >> part >> idx >> clause;
			agg[part].runs++;
			agg[part].foreign++;
			agg[part].counters["foreign." + clause]++;
			st.lastK = globalK(part, idx); st.haveLast = true;
		} else if (tag == 'E') {
			size_t part; unsigned long long idx;
			is >> part >> idx;
			std::string rest;
			std::getline(is, rest);
			infraErrors.push_back("harness error in " + parts[part].family + " index " + std::to_string(idx) + ":" + rest);
			st.lastK = globalK(part, idx); st.haveLast = true;
		} else if (tag == 'S') {
			std::string name; unsigned long long v;
			is >> name >> v;
			auto c = name.find(':');
			size_t part = static_cast<size_t>(atoi(name.substr(0, c).c_str()));
			if (part < agg.size()) agg[part].counters[name.substr(c + 1)] += v;
		} else if (tag == 'D') {
			st.done = true;
		}
	};

	double wallCap = cfg.thorough ? 6 * 3600.0 : 1800.0;
	if (const char* wc = getenv("VERIF_WALL_CAP")) wallCap = atof(wc);
	bool wallHit = false;
	for (;;) {
		std::vector<struct pollfd> pfds;
		std::vector<int> who;
		for (int w = 0; w < W; ++w) if (ws[static_cast<size_t>(w)].fd >= 0) { pfds.push_back({ws[static_cast<size_t>(w)].fd, POLLIN, 0}); who.push_back(w); }
		if (pfds.empty()) break;
		int pr = poll(pfds.data(), pfds.size(), 1000);
		if (pr < 0 && errno != EINTR) throw std::runtime_error("poll failed");
		if (nowS() - t0 > wallCap) { wallHit = true; stopEarly = true; }
		if (cands.size() >= 12) stopEarly = true;
		if (stopEarly) {
			for (auto& st : ws) if (st.pid > 0) kill(st.pid, SIGKILL);
		}
		for (size_t i = 0; i < pfds.size(); ++i) {
			if (!(pfds[i].revents & (POLLIN | POLLHUP | POLLERR))) continue;
			WorkerState& st = ws[static_cast<size_t>(who[i])];
			char buf[65536];
			ssize_t n = ::read(st.fd, buf, sizeof buf);
			if (n > 0) {
				st.buf.append(buf, static_cast<size_t>(n));
				size_t pos = 0, nl;
				while ((nl = st.buf.find('\n', pos)) != std::string::npos) {
					handleLine(st, st.buf.substr(pos, nl - pos));
					pos = nl + 1;
				}
				st.buf.erase(0, pos);
				continue;
			}
			if (n < 0 && (errno == EINTR || errno == EAGAIN)) continue;
			// EOF: worker finished or died
			close(st.fd);
			st.fd = -1;
			int status = 0;
			while (waitpid(st.pid, &status, 0) < 0 && errno == EINTR) {}
			st.pid = -1;
			int w = who[i];
			if (st.done || stopEarly) continue;
			// died mid-run: the status slot says where
			StatusSlot& sl = slots[w];
			size_t part = static_cast<size_t>(sl.part);
			uint64_t idx = sl.index;
			uint64_t k = globalK(part, idx);
			bool started = sl.phase >= 1 && (!st.haveLast || k != st.lastK) && k >= st.startK;
			if (!started) {
				infraErrors.push_back("worker " + std::to_string(w) + " died outside a run (status " + std::to_string(status) + ")");
				continue;
			}
			std::string err = readAll(cfg.scratchBase + "/w" + std::to_string(w) + ".stderr");
			std::string klass = classifyCrash(err, status);
			std::string variant = sl.variant;
			if (sl.phase == 1) {
				infraErrors.push_back("worker died while generating a plan (" + parts[part].family + " index " + std::to_string(idx) + "): " + klass);
			} else if (WIFEXITED(status) && WEXITSTATUS(status) == 80) {
				agg[part].runs++;
				agg[part].counters["fault.alloc_fail_ended_the_process"]++;
			} else {
				agg[part].runs++;
				cands.push_back(Cand{part, idx, cfg.prop + ".crash", variant, "worker died: " + klass, true});
			}
			if (++st.restarts > 200) { infraErrors.push_back("worker restarted too often"); continue; }
			st.lastK = k; st.haveLast = true;
			spawn(w, k + static_cast<uint64_t>(W));
		}
	}
	if (wallHit) infraErrors.push_back("wall-clock safety cap hit before the fixed run range was completed");

	if (!cfg.fpLog.empty()) {
		std::sort(fpLines.begin(), fpLines.end());
		std::ofstream f(cfg.fpLog);
		for (auto& l : fpLines) f << l << "\n";
	}

	// ---- gate, minimise, report ----
	int exitCode = 0;
	std::vector<std::string> violationLines, knownLines;
	std::vector<std::string> violationNotes;
	int gatedViolations = 0;
	{
		// keep at most 2 candidates per clause
		std::map<std::string, int> perClause;
		std::vector<Cand> keep;
		for (auto& c : cands) if (perClause[c.clause + (c.crashed ? c.msg : "")]++ < 2) keep.push_back(c);
		disk::mkdirs(cfg.replayDir);
		std::set<std::string> reportedSigs;
		for (auto& c : keep) {
			if (gatedViolations >= 6) break;
			Plan plan = makePlan(cfg, parts[c.part], c.idx);
			pinVariant(plan, c.variant);
			Outcome a = runInChild(cfg, plan, true, "gateA");
			Outcome b = runInChild(cfg, plan, true, "gateB");
			if (!a.failed() || !a.sameFailure(b) || (a.kind == Outcome::Violated && a.fp != b.fp)) {
				infraErrors.push_back("candidate violation " + c.clause + " (" + parts[c.part].family + " index " + std::to_string(c.idx) + ") did not reproduce identically in fresh processes: first=" +
				                      std::to_string(a.kind) + "/" + a.clause + "/" + a.klass + " second=" + std::to_string(b.kind) + "/" + b.clause + "/" + b.klass + " msg=" + a.msg);
				continue;
			}
			Shrinker sh(cfg, a);
			Plan small = sh.run(plan);
			Outcome m1 = runInChild(cfg, small, true, "gateM1");
			Outcome m2 = runInChild(cfg, small, true, "gateM2");
			Outcome fin = a;
			if (m1.sameFailure(a) && m1.sameFailure(m2) && (m1.kind != Outcome::Violated || m1.fp == m2.fp)) fin = m1;
			else small = plan;
			small.clause = fin.clause;
			small.verdict = (fin.kind == Outcome::Crashed ? "crash " + fin.klass : "violation at op " + std::to_string(fin.opIndex) + ": " + fin.msg);
			Family* fam = findFamily(small.family);
			Violation vv{fin.clause, fin.msg, "", fin.opIndex};
			std::string detail = fin.kind == Outcome::Crashed ? fin.klass : fam->signatureDetail(small, vv);
			std::string sig = fin.clause + "|" + small.family + (detail.empty() ? "" : "|" + detail);
			if (reportedSigs.count(sig)) continue;
			reportedSigs.insert(sig);
			bool isKnown = false;
			for (auto& k : known) if (k.prop == cfg.prop && k.status == "known" && k.signature == sig) { isKnown = true; knownLines.push_back("KNOWN-FINDING: property=" + cfg.prop + " " + k.what + " [signature " + sig + "]"); }
			char name[256];
			snprintf(name, sizeof name, "%s/%s-%s-%llx.replay", cfg.replayDir.c_str(), cfg.prop.c_str(), small.family.c_str(), static_cast<unsigned long long>(small.seed));
			{
				std::ofstream f(name);
				f << small.str();
				f << "# signature " << sig << "\n";
				f << "# minimised with " << sh.cands << " candidate executions; original run had " << plan.ops.size() << " ops, minimised " << small.ops.size() << "\n";
				if (!fin.rawStderr.empty()) {
					std::istringstream es(fin.rawStderr);
					std::string l;
					int n = 0;
					while (std::getline(es, l) && n++ < 40) f << "# " << l << "\n";
				}
			}
			if (!isKnown) {
				++gatedViolations;
				char real[4096];
				std::string path = realpath(name, real) ? real : name;
				violationLines.push_back("VIOLATION property=" + cfg.prop + " replay=" + path);
				violationNotes.push_back(sig + " :: " + small.verdict);
			}
		}
	}
	if (gatedViolations) exitCode = 1;
	else if (!infraErrors.empty()) exitCode = 2;

	// ---- evidence ----
	double wall = nowS() - t0;
	uint64_t evaluations = 0, distinct = 0, runs = 0, schedules = 0, foreign = 0;
	std::map<std::string, uint64_t> counters;
	std::string level = levelOf(cfg.prop);
	for (size_t p = 0; p < parts.size(); ++p) {
		runs += agg[p].runs;
		evaluations += agg[p].evaluations;
		distinct += agg[p].sweepDistinct ? agg[p].sweepDistinct : agg[p].fps.size();
		schedules += agg[p].scheds.size();
		foreign += agg[p].foreign;
		for (auto& c : agg[p].counters) counters[c.first] += c.second;
	}
	if (!cfg.evidencePath.empty()) {
		std::ostringstream j;
		j << "{\n";
		j << "  \"property_id\": " << jstr(cfg.prop) << ",\n";
		j << "  \"tier\": " << jstr(cfg.thorough ? "thorough" : "quick") << ",\n";
		j << "  \"seed\": " << cfg.baseSeed << ",\n";
		j << "  \"level\": " << jstr(level) << ",\n";
		j << "  \"coverage\": {\n";
		j << "    \"evaluations\": " << evaluations << ",\n";
		j << "    \"distinct_nontrivial\": " << distinct << ",\n";
		j << "    \"rule\": " << jstr(ruleOf(cfg.prop)) << ",\n";
		j << "    \"simulated_runs\": " << runs << ",\n";
		j << "    \"runs_per_hour\": " << static_cast<uint64_t>(wall > 0 ? runs * 3600.0 / wall : 0) << ",\n";
		j << "    \"evaluations_per_hour\": " << static_cast<uint64_t>(wall > 0 ? evaluations * 3600.0 / wall : 0) << ",\n";
		j << "    \"simulated_time\": \"n/a - the system under test has no clock, timer or timeout; logical events are counted instead\",\n";
		j << "    \"distinct_schedules\": " << schedules << ",\n";
		j << "    \"workers\": " << W << ",\n";
		j << "    \"families\": [";
		for (size_t p = 0; p < parts.size(); ++p) {
			j << (p ? ", " : "") << "{\"family\": " << jstr(parts[p].family) << ", \"runs\": " << agg[p].runs << ", \"planned\": " << counts[p]
			  << ", \"evaluations\": " << agg[p].evaluations << ", \"nontrivial_runs\": " << agg[p].nontrivialRuns
			  << ", \"distinct_fingerprints\": " << (agg[p].sweepDistinct ? agg[p].sweepDistinct : agg[p].fps.size()) << ", \"distinct_schedules\": " << agg[p].scheds.size() << "}";
		}
		j << "],\n";
		j << "    \"faults_fired\": {";
		bool firstC = true;
		for (auto& c : counters) if (c.first.rfind("fault.", 0) == 0) { j << (firstC ? "" : ", ") << jstr(c.first.substr(6)) << ": " << c.second; firstC = false; }
		j << "},\n";
		j << "    \"probes\": {";
		firstC = true;
		for (auto& c : counters) if (c.first.rfind("probe.", 0) == 0) { j << (firstC ? "" : ", ") << jstr(c.first.substr(6)) << ": " << c.second; firstC = false; }
		j << "},\n";
		j << "    \"counters\": {";
		firstC = true;
		for (auto& c : counters) if (c.first.rfind("probe.", 0) != 0 && c.first.rfind("fault.", 0) != 0) { j << (firstC ? "" : ", ") << jstr(c.first) << ": " << c.second; firstC = false; }
		j << "},\n";
		std::vector<std::string> real, stub;
		componentsOf(cfg.prop, real, stub);
		j << "    \"components\": {\"real\": " << jarr(real) << ", \"stub\": " << jarr(stub) << "},\n";
		j << "    \"foreign_clause_failures\": " << foreign << ",\n";
		j << "    \"violation_signatures\": " << jarr(violationNotes) << ",\n";
		j << "    \"known_findings_hit\": " << jarr(knownLines) << ",\n";
		j << "    \"infrastructure_errors\": " << jarr(infraErrors) << ",\n";
		// samples: the first plans of each part, written out
		j << "    \"samples\": [";
		bool firstS = true;
		for (size_t p = 0; p < parts.size(); ++p) {
			for (uint64_t i = 0; i < 2 && i < counts[p]; ++i) {
				Plan pl = makePlan(cfg, parts[p], i);
				std::istringstream ps(pl.str());
				std::string l, text;
				int n = 0;
				while (std::getline(ps, l) && n++ < 14) { if (l.size() > 200) l = l.substr(0, 200) + "..."; text += l + "\n"; }
				if (pl.ops.size() + pl.world.size() + 3 > 14) text += "... (" + std::to_string(pl.ops.size()) + " ops, " + std::to_string(pl.world.size()) + " world lines in total)\n";
				j << (firstS ? "" : ", ") << jstr(text);
				firstS = false;
			}
		}
		j << "]\n";
		j << "  },\n";
		std::vector<std::string> assume = assumptionsOf(cfg.prop);
		for (auto& c : counters) if (cfg.thorough && c.first.rfind("probe.", 0) == 0 && c.second == 0) assume.push_back("coverage gap: " + c.first + " never hit in this run");
		j << "  \"assumptions\": " << jarr(assume) << ",\n";
		j << "  \"wall_s\": " << wall << ",\n";
		j << "  \"violations\": " << gatedViolations << "\n";
		j << "}\n";
		std::string tmp = cfg.evidencePath + ".tmp";
		{
			std::ofstream f(tmp);
			f << j.str();
		}
		rename(tmp.c_str(), cfg.evidencePath.c_str());
	}

	for (auto& l : knownLines) printf("%s\n", l.c_str());
	for (auto& l : violationLines) printf("%s\n", l.c_str());
	for (size_t i = 0; i < violationNotes.size(); ++i) printf("  note: %s\n", violationNotes[i].c_str());
	for (auto& e : infraErrors) fprintf(stderr, "simrun: infrastructure: %s\n", e.c_str());
	printf("simrun: property=%s tier=%s seed=%llu runs=%llu evaluations=%llu distinct_nontrivial=%llu violations=%d wall=%.1fs exit=%d\n", cfg.prop.c_str(),
	       cfg.thorough ? "thorough" : "quick", static_cast<unsigned long long>(cfg.baseSeed), static_cast<unsigned long long>(runs),
	       static_cast<unsigned long long>(evaluations), static_cast<unsigned long long>(distinct), gatedViolations, wall, exitCode);
	std::string cmd = "rm -rf '" + cfg.scratchBase + "'";
	(void)!system(cmd.c_str());
	return exitCode;
}

// ---------------------------------------------------------------------------------------------
// replay

int replayMain(int argc, char** argv) {
	if (argc < 3) throw std::runtime_error("usage: simrun replay <file> [--trace]");
	bool trace = false;
	for (int i = 3; i < argc; ++i) if (std::string(argv[i]) == "--trace") trace = true;
	std::ifstream f(argv[2]);
	if (!f) throw std::runtime_error(std::string("cannot open ") + argv[2]);
	std::string text((std::istreambuf_iterator<char>(f)), std::istreambuf_iterator<char>());
	Plan plan = Plan::parse(text);
	Family* fam = findFamily(plan.family);
	if (!fam) throw std::runtime_error("unknown family " + plan.family);
	installProcessHandlers();
	std::string root;
	if (const char* d = getenv("VERIF_SCRATCH_DIR")) root = d;
	else {
		const char* s = getenv("VERIF_SCRATCH");
		root = std::string(s && *s ? s : "/dev/shm") + "/simrun-replay." + std::to_string(getpid());
	}
	disk::enterScratch(root);
	RunResult r = runPlan(fam, plan, trace, nullptr);
	if (trace) for (auto& e : r.events) printf("EVENT %s\n", e.c_str());
	std::string line = resultLine(r);
	fputs(line.c_str(), stdout);
	fflush(stdout);
	disk::removeScratch();
	if (r.kind == RunResult::Ok) return 0;
	if (r.kind == RunResult::HarnessError) return 2;
	// a replay file records the clause it is expected to reproduce
	if (!plan.clause.empty() && r.kind == RunResult::Violated && r.v.clause != plan.clause) {
		fprintf(stderr, "replay reproduced a different clause (%s) than recorded (%s)\n", r.v.clause.c_str(), plan.clause.c_str());
	}
	return 1;
}

} // namespace sim

// Which scenario families decide which property; run counts per tier (fixed index ranges, so a
// tier's verdict does not depend on machine speed or worker count).
#include "runner.h"

namespace sim {

static const Part kParts[] = {
	{"C01", "vol-roundtrip", 12000, 400000},
	{"C02", "vol-roundtrip", 8000, 300000},
	{"C02", "vol-foreign", 8000, 300000},
	{"C02", "vol-giant", 150, 6000},
	{"C03", "clm-roundtrip", 10000, 300000},
	{"C04", "lzh-drain", 6000, 300000},
	{"C04", "vol-giant", 90, 3000},
	{"C05", "archive-damage", 96, 3200},
	{"C05", "vol-giant", 150, 6000},
	{"C06", "map-stream", 10000, 400000},
	{"C06", "map-damage", 32, 1600},
	{"C07", "map-damage", 64, 3200},
	{"C08", "bmp-stream", 20000, 600000},
	{"C08", "image-damage", 48, 1600},
	{"C09", "tileset-stream", 12000, 400000},
	{"C10", "prt-stream", 12000, 400000},
	{"C10", "image-damage", 48, 1600},
	{"C11", "image-damage", 96, 3200},
	{"C12", "stream-actors", 60000, 3000000},
	{"C13", "stream-actors", 40000, 2000000},
	{"C13", "archive-streams", 8000, 300000},
	{"C13", "vol-giant", 150, 6000},
	{"C14", "writer-actors", 40000, 2000000},
	{"C14", "copy-matrix", 4000, 200000},
	{"C14", "filewriter-matrix", 300, 20000},
	{"C17", "resource-layout", 12000, 200000},
	{"C17", "vol-giant", 150, 6000},
	{"C18", "twin-env", 10000, 300000},
	{"C20", "limits", 64, 152},
};

std::vector<Part> suiteFor(const std::string& prop) {
	std::vector<Part> v;
	for (auto& p : kParts) if (p.prop == prop) v.push_back(p);
	return v;
}

std::vector<std::string> allProperties() {
	std::vector<std::string> v;
	for (auto& p : kParts) {
		bool seen = false;
		for (auto& s : v) if (s == p.prop) seen = true;
		if (!seen) v.push_back(p.prop);
	}
	return v;
}

std::string levelOf(const std::string& prop) {
	if (prop == "C05" || prop == "C07" || prop == "C11" || prop == "C20") return "fault_enumeration";
	return "exploration";
}

std::string ruleOf(const std::string& prop) {
	if (levelOf(prop) == "fault_enumeration")
		return "each run = one seeded valid world plus ALL its structure-guided damage variants (every prefix, field x boundary value, multi-field templates, flips) each followed by a seeded call history; "
		       "evaluations counts variants; a variant is non-trivial when the damage changed the bytes the library met and at least one library call completed (either way); distinct = distinct event-log fingerprints among non-trivial variants, summed over runs";
	return "each run = one plan generated as a pure function of splitmix64(VERIF_SEED, property, family, index): world, simulated environment (transparent faults, memory fill, readdir order) and a history of 10-80 operations chosen by the seeded scheduler; "
	       "a run is non-trivial when at least one operation changed a model state after the initial one (and is counted once per distinct event-log fingerprint)";
}

std::vector<std::string> assumptionsOf(const std::string& prop) {
	std::vector<std::string> a = {
		"sampling, not proof: a clean batch is evidence over the explored plans only",
		"reference models in /verif/sim/models are the oracle; they share no code with /repo/src",
		"libc wrappers (read/write/writev/readdir) and replaced operator new are harness stubs; libstdc++ streams, the filesystem library and tmpfs are real",
	};
	if (prop == "C09" || prop == "C10") a.push_back("reference codec constants transcribed from the pinned tree (no independent offline format description): detects drift, not errors already present at the pin");
	return a;
}

void componentsOf(const std::string& prop, std::vector<std::string>& real, std::vector<std::string>& stub) {
	(void)prop;
	real = {"all of OP2Utility (/repo/src, compiled from the working tree with ASan+UBSan+_GLIBCXX_ASSERTIONS)", "libstdc++ iostreams / filesystem", "tmpfs scratch directory as simulated disk"};
	stub = {"libc read/write/writev/readdir wrappers (pass-through + injected short counts, EINTR, permuted directory order)", "global operator new/delete (fill byte, memory cap)", "reference models (oracle side only)"};
}

} // namespace sim

#include "core.h"
#include <cstdio>
#include <cstdlib>
#include <sstream>
#include <stdexcept>

namespace sim {

std::vector<uint8_t> prngBytes(uint64_t seed, size_t len) {
	std::vector<uint8_t> v(len);
	uint64_t s = seed ^ 0xA5A5A5A55A5A5A5Aull;
	size_t i = 0;
	while (i < len) {
		uint64_t x = splitmix64(s);
		for (int k = 0; k < 8 && i < len; ++k, ++i) v[i] = static_cast<uint8_t>(x >> (8 * k));
	}
	return v;
}

std::string hex64(uint64_t v) {
	char b[32];
	snprintf(b, sizeof b, "0x%llx", static_cast<unsigned long long>(v));
	return b;
}
std::string hexBytes(const void* p, size_t n) {
	static const char* d = "0123456789abcdef";
	const unsigned char* c = static_cast<const unsigned char*>(p);
	std::string s;
	s.reserve(n * 2);
	for (size_t i = 0; i < n; ++i) { s.push_back(d[c[i] >> 4]); s.push_back(d[c[i] & 15]); }
	return s;
}
static int hv(char c) {
	if (c >= '0' && c <= '9') return c - '0';
	if (c >= 'a' && c <= 'f') return c - 'a' + 10;
	if (c >= 'A' && c <= 'F') return c - 'A' + 10;
	throw std::runtime_error("bad hex digit");
}
std::vector<uint8_t> unhex(const std::string& s) {
	if (s.size() % 2) throw std::runtime_error("odd hex length");
	std::vector<uint8_t> v(s.size() / 2);
	for (size_t i = 0; i < v.size(); ++i) v[i] = static_cast<uint8_t>(hv(s[2 * i]) * 16 + hv(s[2 * i + 1]));
	return v;
}
uint64_t parseU64(const std::string& s) {
	if (s.empty()) throw std::runtime_error("empty number");
	char* end = nullptr;
	errno = 0;
	unsigned long long v = strtoull(s.c_str(), &end, 0);
	if (*end) throw std::runtime_error("bad number '" + s + "'");
	return v;
}
std::string quoteToken(const std::string& s) {
	std::string o;
	for (unsigned char c : s) {
		if (c <= ' ' || c == '%' || c == '=' || c >= 127) {
			char b[8];
			snprintf(b, sizeof b, "%%%02x", c);
			o += b;
		} else o.push_back(static_cast<char>(c));
	}
	return o;
}
std::string unquoteToken(const std::string& s) {
	std::string o;
	for (size_t i = 0; i < s.size(); ++i) {
		if (s[i] == '%' && i + 2 < s.size()) {
			o.push_back(static_cast<char>(hv(s[i + 1]) * 16 + hv(s[i + 2])));
			i += 2;
		} else o.push_back(s[i]);
	}
	return o;
}

bool Line::has(const std::string& k) const {
	for (auto& p : kv) if (p.first == k) return true;
	return false;
}
std::string Line::get(const std::string& k, const std::string& def) const {
	for (auto& p : kv) if (p.first == k) return p.second;
	return def;
}
uint64_t Line::u(const std::string& k, uint64_t def) const {
	for (auto& p : kv) if (p.first == k) return parseU64(p.second);
	return def;
}
int64_t Line::i(const std::string& k, int64_t def) const {
	for (auto& p : kv) if (p.first == k) return static_cast<int64_t>(strtoll(p.second.c_str(), nullptr, 0));
	return def;
}
Line& Line::set(const std::string& k, const std::string& v) {
	for (auto& p : kv) if (p.first == k) { p.second = v; return *this; }
	kv.emplace_back(k, v);
	return *this;
}
Line& Line::set(const std::string& k, uint64_t v) { return set(k, std::to_string(v)); }
void Line::erase(const std::string& k) {
	for (size_t i = 0; i < kv.size(); ++i) if (kv[i].first == k) { kv.erase(kv.begin() + i); return; }
}
std::string Line::str() const {
	std::string s = kind + " " + verb;
	for (auto& p : kv) s += " " + p.first + "=" + p.second;
	return s;
}
Line mkline(const std::string& kind, const std::string& verb) {
	Line l;
	l.kind = kind;
	l.verb = verb;
	return l;
}

std::string Plan::envs(const std::string& k, const std::string& def) const {
	for (auto& p : env) if (p.first == k) return p.second;
	return def;
}
uint64_t Plan::envu(const std::string& k, uint64_t def) const {
	for (auto& p : env) if (p.first == k) return parseU64(p.second);
	return def;
}
void Plan::setenv(const std::string& k, const std::string& v) {
	for (auto& p : env) if (p.first == k) { p.second = v; return; }
	env.emplace_back(k, v);
}
void Plan::setenv(const std::string& k, uint64_t v) { setenv(k, std::to_string(v)); }

std::string Plan::str() const {
	std::string s = "simrun-replay 1\n";
	s += "property " + property + " clause " + (clause.empty() ? "-" : clause) + " family " + family + " seed " + hex64(seed) + " index " + std::to_string(index) + "\n";
	s += "env";
	for (auto& p : env) s += " " + p.first + "=" + p.second;
	s += "\n";
	for (auto& l : world) s += l.str() + "\n";
	for (auto& l : damage) s += l.str() + "\n";
	for (auto& l : ops) s += l.str() + "\n";
	if (!verdict.empty()) s += "verdict " + verdict + "\n";
	return s;
}

static std::vector<std::string> splitWs(const std::string& s) {
	std::vector<std::string> t;
	std::istringstream is(s);
	std::string w;
	while (is >> w) t.push_back(w);
	return t;
}

Plan Plan::parse(const std::string& text) {
	Plan p;
	std::istringstream is(text);
	std::string line;
	bool first = true;
	while (std::getline(is, line)) {
		if (line.empty() || line[0] == '#') continue;
		if (first) {
			if (line.rfind("simrun-replay 1", 0) != 0) throw std::runtime_error("not a simrun replay file (version 1)");
			first = false;
			continue;
		}
		if (line.rfind("verdict ", 0) == 0) { p.verdict = line.substr(8); continue; }
		auto t = splitWs(line);
		if (t.empty()) continue;
		if (t[0] == "property") {
			for (size_t i = 0; i + 1 < t.size(); i += 2) {
				if (t[i] == "property") p.property = t[i + 1];
				else if (t[i] == "clause") p.clause = (t[i + 1] == "-" ? "" : t[i + 1]);
				else if (t[i] == "family") p.family = t[i + 1];
				else if (t[i] == "seed") p.seed = parseU64(t[i + 1]);
				else if (t[i] == "index") p.index = parseU64(t[i + 1]);
				else throw std::runtime_error("unknown header key " + t[i]);
			}
		} else if (t[0] == "env") {
			for (size_t i = 1; i < t.size(); ++i) {
				auto eq = t[i].find('=');
				if (eq == std::string::npos) throw std::runtime_error("bad env token " + t[i]);
				p.env.emplace_back(t[i].substr(0, eq), t[i].substr(eq + 1));
			}
		} else if (t[0] == "world" || t[0] == "op" || t[0] == "damage") {
			if (t.size() < 2) throw std::runtime_error("line without verb: " + line);
			Line l;
			l.kind = t[0];
			l.verb = t[1];
			for (size_t i = 2; i < t.size(); ++i) {
				auto eq = t[i].find('=');
				if (eq == std::string::npos) throw std::runtime_error("bad token " + t[i] + " in: " + line);
				l.kv.emplace_back(t[i].substr(0, eq), t[i].substr(eq + 1));
			}
			if (l.kind == "world") p.world.push_back(l);
			else if (l.kind == "op") p.ops.push_back(l);
			else p.damage.push_back(l);
		} else throw std::runtime_error("unknown line: " + line);
	}
	if (first) throw std::runtime_error("empty replay file");
	return p;
}

void RunCtx::setVariant(const std::string& v) {
	variant = v;
	if (slot) {
		size_t n = v.size() < sizeof(slot->variant) - 1 ? v.size() : sizeof(slot->variant) - 1;
		memcpy(slot->variant, v.data(), n);
		slot->variant[n] = 0;
	}
}

void RunCtx::fail(const std::string& clause, const std::string& msg) {
	throw Violation{clause, msg, variant, opIndex};
}

uint64_t g_genIndex = 0;

std::vector<Family*>& allFamilies() {
	static std::vector<Family*> v;
	return v;
}
void registerFamily(Family* f) { allFamilies().push_back(f); }
Family* findFamily(const std::string& name) {
	for (auto* f : allFamilies()) if (f->name() == name) return f;
	return nullptr;
}

} // namespace sim

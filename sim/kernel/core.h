// Kernel types shared by every scenario family: PRNG, plan text format, run context.
// Nothing in here touches OP2Utility.
#pragma once
#include <cstdint>
#include <cstring>
#include <map>
#include <string>
#include <utility>
#include <vector>

namespace sim {

inline uint64_t splitmix64(uint64_t& x) {
	uint64_t z = (x += 0x9E3779B97F4A7C15ull);
	z = (z ^ (z >> 30)) * 0xBF58476D1CE4E5B9ull;
	z = (z ^ (z >> 27)) * 0x94D049BB133111EBull;
	return z ^ (z >> 31);
}
inline uint64_t mix64(uint64_t a, uint64_t b) {
	uint64_t x = a ^ (b + 0x9E3779B97F4A7C15ull + (a << 6) + (a >> 2));
	return splitmix64(x);
}
inline uint64_t fnv1a(const void* data, size_t n, uint64_t h = 1469598103934665603ull) {
	const unsigned char* p = static_cast<const unsigned char*>(data);
	for (size_t i = 0; i < n; ++i) { h ^= p[i]; h *= 1099511628211ull; }
	return h;
}
inline uint64_t hashstr(const std::string& s, uint64_t h = 1469598103934665603ull) { return fnv1a(s.data(), s.size(), h); }

// The only source of randomness. Every draw of a run comes from one of these, seeded from
// splitmix64(VERIF_SEED, property, family, index).
struct Rng {
	uint64_t s;
	explicit Rng(uint64_t seed) : s(seed) {}
	uint64_t next() { return splitmix64(s); }
	uint64_t below(uint64_t n) { return n ? next() % n : 0; }
	uint64_t range(uint64_t lo, uint64_t hi) { return lo + below(hi - lo + 1); } // inclusive
	bool chance(uint64_t num, uint64_t den) { return below(den) < num; }
	template <class T> const T& pick(const std::vector<T>& v) { return v[below(v.size())]; }
	Rng fork(uint64_t tag) { return Rng(mix64(next(), tag)); }
};

// Deterministic content for "prng SEED LEN" world entries (independent of Rng stream position).
std::vector<uint8_t> prngBytes(uint64_t seed, size_t len);

std::string hex64(uint64_t v);
std::string hexBytes(const void* p, size_t n);
std::vector<uint8_t> unhex(const std::string& s);
uint64_t parseU64(const std::string& s);
std::string quoteToken(const std::string& s);   // percent-escapes spaces etc. so a value is one token
std::string unquoteToken(const std::string& s);

// One line of a plan: "<kind> <verb> k=v k=v ..."
struct Line {
	std::string kind; // "world" | "op" | "damage"
	std::string verb;
	std::vector<std::pair<std::string, std::string>> kv;

	bool has(const std::string& k) const;
	std::string get(const std::string& k, const std::string& def = "") const;
	uint64_t u(const std::string& k, uint64_t def = 0) const;
	int64_t i(const std::string& k, int64_t def = 0) const;
	Line& set(const std::string& k, const std::string& v);
	Line& set(const std::string& k, uint64_t v);
	void erase(const std::string& k);
	std::string str() const;
};
Line mkline(const std::string& kind, const std::string& verb);

struct Plan {
	std::string property, family, clause;
	uint64_t seed = 0, index = 0;
	std::vector<std::pair<std::string, std::string>> env;
	std::vector<Line> world;
	std::vector<Line> damage; // empty, one pinned damage, or verb "all" (sweep)
	std::vector<Line> ops;
	std::string verdict;

	std::string envs(const std::string& k, const std::string& def = "") const;
	uint64_t envu(const std::string& k, uint64_t def = 0) const;
	void setenv(const std::string& k, const std::string& v);
	void setenv(const std::string& k, uint64_t v);
	std::string str() const;
	static Plan parse(const std::string& text); // throws std::runtime_error
};

struct Violation {
	std::string clause, msg, variant;
	size_t opIndex;
};

// Shared page between a worker and the supervisor: which run/variant/op is in flight.
struct StatusSlot {
	volatile uint64_t part, index, op, phase;
	char variant[480];
};

struct RunCtx {
	std::string prop;
	bool trace = false;
	uint64_t fp = 1469598103934665603ull;    // event-log fingerprint
	uint64_t sched = 1469598103934665603ull; // actor/op-kind sequence fingerprint
	std::vector<std::string> events;         // only in trace mode
	std::map<std::string, uint64_t> counters;
	uint64_t evaluations = 0;      // damage variants (sweeps) or 1
	uint64_t nontrivialEvals = 0;  // evaluations that reached a non-initial state (and fired a fault, for fault families)
	uint64_t distinctEvals = 0;    // distinct fingerprints among the non-trivial evaluations of this run
	bool nontrivial = false;
	size_t opIndex = 0;
	std::string variant;
	StatusSlot* slot = nullptr;
	std::string sample;            // a short written-out description of this run (for evidence.samples)

	void event(const std::string& s) {
		fp = hashstr(s, fp * 1099511628211ull + 0x2d);
		if (trace) events.push_back(s);
	}
	void schedNote(const std::string& s) { sched = hashstr(s, sched * 31 + 7); }
	void count(const std::string& name, uint64_t n = 1) { counters[name] += n; }
	void setOp(size_t i) { opIndex = i; if (slot) slot->op = i; }
	void setVariant(const std::string& v);
	[[noreturn]] void fail(const std::string& clause, const std::string& msg);
	void expect(bool cond, const char* clause, const std::string& msg) { if (!cond) fail(clause, msg); }
};

struct Family {
	virtual ~Family() {}
	virtual std::string name() const = 0;
	// Pure function of (prop, rng stream, thorough): no library code, no clock, no I/O.
	virtual Plan generate(const std::string& prop, Rng& rng, bool thorough) = 0;
	virtual void execute(const Plan& plan, RunCtx& ctx) = 0;
	// Extra detail appended to a known-finding signature (computed on the minimised plan).
	virtual std::string signatureDetail(const Plan&, const Violation&) { return ""; }
};
// Index of the run being generated (set by the kernel before Family::generate): lets a family
// enumerate a finite case list exhaustively across the index range instead of sampling it.
extern uint64_t g_genIndex;

void registerFamily(Family* f);
Family* findFamily(const std::string& name);
std::vector<Family*>& allFamilies();

struct FamilyRegistrar {
	explicit FamilyRegistrar(Family* f) { registerFamily(f); }
};

void processPrelude(); // the first library history of every process (defined with the scenarios)

} // namespace sim

// The simulated environment a run executes in: fault layer at the libc boundary,
// allocator behaviour, stack garbage, scratch "disk".
#pragma once
#include <cstddef>
#include <cstdint>
#include <map>
#include <string>
#include <vector>

namespace sim {

struct FaultCfg {
	// configuration (per run, from plan env)
	uint32_t shortRead = 0;   // read() returns at most this many bytes (0 = off)
	uint32_t shortWrite = 0;  // write() accepts at most this many bytes; writev() degraded to first iovec
	uint32_t eintr = 0;       // every eintr-th read/write/writev fails once with EINTR (0 = off, >= 2)
	uint64_t readdirSeed = 0; // directory entries delivered in a seeded permutation (0 = sorted order)
	bool sink = false;        // data writes on armed descriptors become lseek (+ftruncate at close): no blocks used
	uint64_t ioBudget = 4000000; // intercepted calls allowed inside one library call
	// state
	bool armed = false;
	uint64_t callsThisArm = 0;
	bool budgetExceeded = false;
	uint64_t eintrTick = 0;
	// paths the library opened for writing, renamed or removed while armed (fixed storage: the seam must not allocate)
	static const int kMaxTouched = 48;
	char touched[kMaxTouched][400];
	int touchedCount = 0;
	// counters (since last reset)
	uint64_t syscalls = 0, firedShortRead = 0, firedShortWrite = 0, firedEintr = 0, firedReaddir = 0, sunkBytes = 0;
	// failing opens: while armed, the openFailCountdown-th fopen/open for READING from now fails with EMFILE (0 = off): the process is out of
	// descriptors, or the file went away between two opens of the same name
	uint64_t openFailCountdown = 0, firedOpenFail = 0;
};
extern FaultCfg g_fault;

// RAII: faults apply only while the library is executing.
struct Armed {
	Armed();
	~Armed();
};

struct AllocCfg {
	bool fill = false;
	unsigned char heapFill = 0;
	size_t cap = SIZE_MAX;        // single allocations above this throw std::bad_alloc ("finite memory")
	uint64_t capHits = 0;
	uint64_t allocs = 0;
	// failing allocations: while the fault layer is armed, the failCountdown-th operator new from now throws std::bad_alloc
	// (0 = off). Models a machine running out of memory at an arbitrary point inside one library call.
	uint64_t failCountdown = 0;
	uint64_t injectedFailures = 0;
	bool injectionInFlight = false; // an injected std::bad_alloc is propagating (cleared when the call returns to the harness)
};
extern AllocCfg g_alloc;
extern bool g_rawMemory;

void scribbleStack(unsigned char fill);          // put garbage where the next call's frames will live
void* heapShiftAcquire(size_t bytes);            // junk allocation moving later heap addresses
void heapShiftRelease(void* p);

// ---- scratch "disk": everything relative to the process's cwd, which is the worker's scratch root ----
namespace disk {
void enterScratch(const std::string& root);     // mkdir -p root, chdir into it
std::string scratchRoot();
void wipe();                                    // remove every entry below the scratch root
void removeScratch();                           // wipe + rmdir
void mkdirs(const std::string& dir);
void put(const std::string& path, const void* data, size_t n); // creates parent directories
inline void put(const std::string& path, const std::vector<uint8_t>& v) { put(path, v.data(), v.size()); }
void putSparse(const std::string& path, uint64_t len);
void putPieces(const std::string& path, const std::vector<std::pair<uint64_t, std::vector<uint8_t>>>& pieces, uint64_t total); // sparse file: holes between the pieces
bool get(const std::string& path, std::vector<uint8_t>& out);  // false if not a readable regular file
bool exists(const std::string& path);
bool isDir(const std::string& path);
uint64_t fileSize(const std::string& path);
struct Entry { uint64_t len; uint64_t hash; bool dir; };
std::map<std::string, Entry> snapshot(const std::string& dir = "."); // recursive, keys relative
std::string snapshotDiff(const std::map<std::string, Entry>& a, const std::map<std::string, Entry>& b);
}

} // namespace sim

// Scratch "disk": plain POSIX calls, only ever used by the harness with the fault layer disarmed.
#include "env.h"
#include "../kernel/core.h"
#include <cerrno>
#include <cstdio>
#include <cstring>
#include <dirent.h>
#include <fcntl.h>
#include <stdexcept>
#include <sys/stat.h>
#include <unistd.h>

namespace sim { namespace disk {

static std::string g_root;

static void die(const std::string& what) {
	throw std::runtime_error("simulated disk: " + what + ": " + strerror(errno));
}

void mkdirs(const std::string& dir) {
	if (dir.empty() || dir == "." || dir == "/") return;
	std::string cur;
	size_t i = 0;
	if (dir[0] == '/') { cur = "/"; i = 1; }
	while (i <= dir.size()) {
		size_t j = dir.find('/', i);
		if (j == std::string::npos) j = dir.size();
		std::string part = dir.substr(i, j - i);
		if (!part.empty()) {
			if (!cur.empty() && cur.back() != '/') cur += "/";
			cur += part;
			if (mkdir(cur.c_str(), 0777) != 0 && errno != EEXIST) die("mkdir " + cur);
		}
		i = j + 1;
	}
}

void enterScratch(const std::string& root) {
	mkdirs(root);
	if (chdir(root.c_str()) != 0) die("chdir " + root);
	g_root = root;
}
std::string scratchRoot() { return g_root; }

static void rmTree(const std::string& path, bool removeSelf) {
	DIR* d = opendir(path.c_str());
	if (!d) return;
	std::vector<std::string> names;
	while (struct dirent* e = readdir(d)) {
		if (!strcmp(e->d_name, ".") || !strcmp(e->d_name, "..")) continue;
		names.push_back(e->d_name);
	}
	closedir(d);
	for (auto& n : names) {
		std::string p = path + "/" + n;
		struct stat st;
		if (lstat(p.c_str(), &st) != 0) continue;
		if (S_ISDIR(st.st_mode)) rmTree(p, true);
		else unlink(p.c_str());
	}
	if (removeSelf) rmdir(path.c_str());
}

void wipe() {
	if (g_root.empty()) return;
	rmTree(".", false);
}
void removeScratch() {
	if (g_root.empty()) return;
	rmTree(".", false);
	if (chdir("/") == 0) rmdir(g_root.c_str());
	g_root.clear();
}

static void mkParent(const std::string& path) {
	auto s = path.rfind('/');
	if (s != std::string::npos) mkdirs(path.substr(0, s));
}

void put(const std::string& path, const void* data, size_t n) {
	mkParent(path);
	int fd = open(path.c_str(), O_WRONLY | O_CREAT | O_TRUNC, 0666);
	if (fd < 0) die("create " + path);
	const char* p = static_cast<const char*>(data);
	size_t off = 0;
	while (off < n) {
		ssize_t w = ::write(fd, p + off, n - off);
		if (w < 0) { if (errno == EINTR) continue; close(fd); die("write " + path); }
		off += static_cast<size_t>(w);
	}
	close(fd);
}

void putSparse(const std::string& path, uint64_t len) {
	mkParent(path);
	int fd = open(path.c_str(), O_WRONLY | O_CREAT | O_TRUNC, 0666);
	if (fd < 0) die("create " + path);
	if (ftruncate(fd, static_cast<off_t>(len)) != 0) { close(fd); die("ftruncate " + path); }
	close(fd);
}

void putPieces(const std::string& path, const std::vector<std::pair<uint64_t, std::vector<uint8_t>>>& pieces, uint64_t total) {
	mkParent(path);
	int fd = open(path.c_str(), O_WRONLY | O_CREAT | O_TRUNC, 0666);
	if (fd < 0) die("create " + path);
	if (ftruncate(fd, static_cast<off_t>(total)) != 0) { close(fd); die("ftruncate " + path); }
	for (auto& pc : pieces) {
		size_t done = 0;
		while (done < pc.second.size()) {
			ssize_t k = pwrite(fd, pc.second.data() + done, pc.second.size() - done, static_cast<off_t>(pc.first + done));
			if (k <= 0) { close(fd); die("pwrite " + path); }
			done += static_cast<size_t>(k);
		}
	}
	close(fd);
}

bool get(const std::string& path, std::vector<uint8_t>& out) {
	struct stat st;
	if (stat(path.c_str(), &st) != 0 || !S_ISREG(st.st_mode)) return false;
	int fd = open(path.c_str(), O_RDONLY);
	if (fd < 0) return false;
	out.resize(static_cast<size_t>(st.st_size));
	size_t off = 0;
	while (off < out.size()) {
		ssize_t r = ::read(fd, out.data() + off, out.size() - off);
		if (r < 0) { if (errno == EINTR) continue; break; }
		if (r == 0) break;
		off += static_cast<size_t>(r);
	}
	close(fd);
	out.resize(off);
	return true;
}

bool exists(const std::string& path) {
	struct stat st;
	return lstat(path.c_str(), &st) == 0;
}
bool isDir(const std::string& path) {
	struct stat st;
	return stat(path.c_str(), &st) == 0 && S_ISDIR(st.st_mode);
}
uint64_t fileSize(const std::string& path) {
	struct stat st;
	if (stat(path.c_str(), &st) != 0) return UINT64_MAX;
	return static_cast<uint64_t>(st.st_size);
}

static void snapRec(const std::string& dir, const std::string& rel, std::map<std::string, Entry>& out) {
	DIR* d = opendir(dir.c_str());
	if (!d) return;
	std::vector<std::string> names;
	while (struct dirent* e = readdir(d)) {
		if (!strcmp(e->d_name, ".") || !strcmp(e->d_name, "..")) continue;
		names.push_back(e->d_name);
	}
	closedir(d);
	for (auto& n : names) {
		std::string p = dir + "/" + n, r = rel.empty() ? n : rel + "/" + n;
		struct stat st;
		if (lstat(p.c_str(), &st) != 0) continue;
		if (S_ISDIR(st.st_mode)) {
			out[r] = Entry{0, 0, true};
			snapRec(p, r, out);
		} else {
			Entry e{static_cast<uint64_t>(st.st_size), 0, false};
			// hash content (sparse giants: hash only size to stay cheap)
			if (st.st_size <= (64 << 20)) {
				std::vector<uint8_t> v;
				if (get(p, v)) e.hash = fnv1a(v.data(), v.size());
			} else e.hash = static_cast<uint64_t>(st.st_size) * 1315423911ull + static_cast<uint64_t>(st.st_blocks);
			out[r] = e;
		}
	}
}

std::map<std::string, Entry> snapshot(const std::string& dir) {
	std::map<std::string, Entry> m;
	snapRec(dir, "", m);
	return m;
}

std::string snapshotDiff(const std::map<std::string, Entry>& a, const std::map<std::string, Entry>& b) {
	std::string s;
	for (auto& p : a) {
		auto it = b.find(p.first);
		if (it == b.end()) s += " removed:" + p.first;
		else if (it->second.len != p.second.len || it->second.hash != p.second.hash || it->second.dir != p.second.dir) s += " changed:" + p.first;
	}
	for (auto& p : b) if (!a.count(p.first)) s += " created:" + p.first;
	return s;
}

}} // namespace

// Allocation seam: the replaceable global allocation functions. Fresh heap memory holds a per-run
// fill byte instead of whatever the allocator leaves, and memory is finite: a single request above
// the cap gets std::bad_alloc, the answer a real machine gives for an absurd size.
#include "env.h"
#include <cstdlib>
#include <cstring>
#include <new>

namespace sim {
AllocCfg g_alloc;

bool g_rawMemory = false; // SIM_RAW_MEMORY=1: leave fresh heap/stack memory untouched so a definedness checker can see it

__attribute__((noinline)) void scribbleStack(unsigned char fill) {
	if (g_rawMemory) return;
	volatile unsigned char buf[48 * 1024];
	memset(const_cast<unsigned char*>(buf), fill, sizeof buf);
	__asm__ volatile("" : : "r"(buf) : "memory");
}

void* heapShiftAcquire(size_t bytes) { return bytes ? malloc(bytes) : nullptr; }
void heapShiftRelease(void* p) { free(p); }
}

namespace {
inline void* allocImpl(std::size_t n, std::size_t align, bool nothrow) {
	using sim::g_alloc;
	++g_alloc.allocs;
	if (g_alloc.failCountdown && sim::g_fault.armed && --g_alloc.failCountdown == 0) {
		++g_alloc.injectedFailures;
		g_alloc.injectionInFlight = true;
		if (nothrow) return nullptr;
		throw std::bad_alloc();
	}
	if (n > g_alloc.cap) {
		++g_alloc.capHits;
		if (nothrow) return nullptr;
		throw std::bad_alloc();
	}
	void* p;
	if (align > alignof(std::max_align_t)) {
		p = nullptr;
		if (posix_memalign(&p, align, n ? n : 1) != 0) p = nullptr;
	} else p = malloc(n ? n : 1);
	if (!p) {
		if (nothrow) return nullptr;
		throw std::bad_alloc();
	}
	if (g_alloc.fill) memset(p, g_alloc.heapFill, n);
	return p;
}
}

void* operator new(std::size_t n) { return allocImpl(n, 0, false); }
void* operator new[](std::size_t n) { return allocImpl(n, 0, false); }
void* operator new(std::size_t n, const std::nothrow_t&) noexcept { return allocImpl(n, 0, true); }
void* operator new[](std::size_t n, const std::nothrow_t&) noexcept { return allocImpl(n, 0, true); }
void* operator new(std::size_t n, std::align_val_t a) { return allocImpl(n, static_cast<std::size_t>(a), false); }
void* operator new[](std::size_t n, std::align_val_t a) { return allocImpl(n, static_cast<std::size_t>(a), false); }
void* operator new(std::size_t n, std::align_val_t a, const std::nothrow_t&) noexcept { return allocImpl(n, static_cast<std::size_t>(a), true); }
void* operator new[](std::size_t n, std::align_val_t a, const std::nothrow_t&) noexcept { return allocImpl(n, static_cast<std::size_t>(a), true); }
void operator delete(void* p) noexcept { free(p); }
void operator delete[](void* p) noexcept { free(p); }
void operator delete(void* p, std::size_t) noexcept { free(p); }
void operator delete[](void* p, std::size_t) noexcept { free(p); }
void operator delete(void* p, const std::nothrow_t&) noexcept { free(p); }
void operator delete[](void* p, const std::nothrow_t&) noexcept { free(p); }
void operator delete(void* p, std::align_val_t) noexcept { free(p); }
void operator delete[](void* p, std::align_val_t) noexcept { free(p); }
void operator delete(void* p, std::size_t, std::align_val_t) noexcept { free(p); }
void operator delete[](void* p, std::size_t, std::align_val_t) noexcept { free(p); }

// SimReader / SimWriter: harness implementations of the library's own abstract stream interfaces
// (seam S7). They record every call (op trace, consumption high-water mark), can end the source at
// an arbitrary byte, raise at the k-th call, or refuse at a capacity. They are STUBS: every scenario
// that uses them also runs on the library's real backends.
#pragma once
#include "Stream/BidirectionalReader.h"
#include "Stream/BidirectionalWriter.h"
#include <cstring>
#include <functional>
#include <stdexcept>
#include <string>
#include <vector>

namespace sim {

class SimReader : public OP2Utility::Stream::BidirectionalReader {
public:
	struct Rec { char op; uint64_t size, before, after; };
	std::vector<uint8_t> data;
	uint64_t pos = 0;
	uint64_t throwAtCall = UINT64_MAX; // the k-th read call raises (the producer "crashed")
	uint64_t calls = 0, highWater = 0;
	std::vector<Rec> trace;
	bool keepTrace = true;
	// Interleaving point (the only one a single-threaded library has): at the end of the k-th data-delivering call, before control
	// returns into the library, the scheduler may run another task - typically a second library call on other objects. Whatever that
	// task throws is kept for the harness; nothing propagates into the interrupted call.
	std::function<void()> interleave;
	uint64_t interleaveAtCall = UINT64_MAX, dataCalls = 0;
	bool interleaved = false, inInterleave = false;
	bool interleaveBefore = false; // run the other task before the bytes are delivered into the caller's buffer instead of after
	std::string interleaveError;

	explicit SimReader(std::vector<uint8_t> bytes) : data(std::move(bytes)) {}

	std::size_t ReadPartial(void* buffer, std::size_t size) noexcept override {
		if (interleaveBefore) maybeInterleave();
		uint64_t left = data.size() - pos;
		std::size_t n = size < left ? size : static_cast<std::size_t>(left);
		if (n) memcpy(buffer, data.data() + pos, n);
		note('p', size, pos, pos + n);
		pos += n;
		if (!interleaveBefore) maybeInterleave();
		return n;
	}
	uint64_t Length() override { return data.size(); }
	uint64_t Position() override { return pos; }
	void SeekForward(uint64_t offset) override {
		if (offset > data.size() - pos) throw std::runtime_error("SimReader: seek beyond the end of the source");
		note('f', offset, pos, pos + offset);
		pos += offset;
	}
	void SeekBackward(uint64_t offset) override {
		if (offset > pos) throw std::runtime_error("SimReader: seek before the start of the source");
		note('b', offset, pos, pos - offset);
		pos -= offset;
	}
	void Seek(uint64_t position) override {
		if (position > data.size()) throw std::runtime_error("SimReader: seek beyond the end of the source");
		note('s', position, pos, position);
		pos = position;
	}

protected:
	void ReadImplementation(void* buffer, std::size_t size) override {
		if (++calls >= throwAtCall) throw std::runtime_error("SimReader: the source failed at read call " + std::to_string(calls));
		if (interleaveBefore) maybeInterleave();
		if (size > data.size() - pos) throw std::runtime_error("SimReader: read of " + std::to_string(size) + " bytes at " + std::to_string(pos) + " runs past the end of the source (" + std::to_string(data.size()) + ")");
		if (size) memcpy(buffer, data.data() + pos, size);
		note('r', size, pos, pos + size);
		pos += size;
		if (!interleaveBefore) maybeInterleave();
	}

private:
	void maybeInterleave() noexcept {
		if (inInterleave || !interleave || ++dataCalls != interleaveAtCall) return;
		inInterleave = true;
		try { interleave(); } catch (const std::exception& e) { interleaveError = e.what(); } catch (...) { interleaveError = "non-std exception"; }
		inInterleave = false;
		interleaved = true;
	}
	void note(char op, uint64_t size, uint64_t before, uint64_t after) {
		if (after > highWater) highWater = after;
		if (keepTrace && trace.size() < 100000) trace.push_back(Rec{op, size, before, after});
	}
};

class SimWriter : public OP2Utility::Stream::BidirectionalWriter {
public:
	struct Rec { char op; uint64_t size, at; };
	std::vector<uint8_t> data;
	uint64_t capacity = UINT64_MAX; // a write that would exceed it is refused
	std::vector<Rec> trace;
	// Interleaving point: at the START of the k-th write call, before the bytes handed over are looked at (see SimReader).
	std::function<void()> interleave;
	uint64_t interleaveAtCall = UINT64_MAX, dataCalls = 0;
	bool interleaved = false, inInterleave = false;
	std::string interleaveError;
	// Fault: the k-th write call fails - the device reports an error (kind 0, std::runtime_error), memory runs out while the
	// destination grows (kind 1, std::bad_alloc), or the destination rejects the size (kind 2, std::length_error)
	uint64_t failAtCall = UINT64_MAX, writeCalls = 0;
	int failKind = 0;

	uint64_t Length() override { return data.size(); }
	uint64_t Position() override { return data.size(); }
	void SeekForward(uint64_t offset) override { if (offset > capacity - data.size()) throw std::runtime_error("SimWriter: full"); data.resize(data.size() + static_cast<size_t>(offset), 0); }
	void SeekBackward(uint64_t offset) override { if (offset > data.size()) throw std::runtime_error("SimWriter: seek before start"); data.resize(data.size() - static_cast<size_t>(offset)); }
	void Seek(uint64_t offset) override { if (offset > capacity) throw std::runtime_error("SimWriter: full"); data.resize(static_cast<size_t>(offset), 0); }

protected:
	void WriteImplementation(const void* buffer, std::size_t size) override {
		if (!inInterleave && interleave && ++dataCalls == interleaveAtCall) {
			inInterleave = true;
			try { interleave(); } catch (const std::exception& e) { interleaveError = e.what(); } catch (...) { interleaveError = "non-std exception"; }
			inInterleave = false;
			interleaved = true;
		}
		if (++writeCalls == failAtCall) {
			if (failKind == 1) throw std::bad_alloc();
			if (failKind == 2) throw std::length_error("SimWriter: destination rejects the size");
			throw std::runtime_error("SimWriter: device error at write call " + std::to_string(writeCalls));
		}
		if (size > capacity - data.size()) throw std::runtime_error("SimWriter: device full after " + std::to_string(data.size()) + " bytes");
		if (trace.size() < 100000) trace.push_back(Rec{'w', size, data.size()});
		const uint8_t* p = static_cast<const uint8_t*>(buffer);
		data.insert(data.end(), p, p + size);
	}
};

} // namespace sim

// libc boundary seam: the harness executable defines read/write/writev/readdir/closedir itself, so
// libstdc++'s basic_filebuf and the (experimental) filesystem library call these instead of libc's.
// Outside an Armed scope they are pure pass-through.
#include "env.h"
#include <algorithm>
#include <cerrno>
#include <cstring>
#include <dirent.h>
#include <cstdarg>
#include <cstdio>
#include <dlfcn.h>
#include <fcntl.h>
#include <sys/stat.h>
#include <sys/types.h>
#include <sys/uio.h>
#include <unistd.h>
#include "../kernel/core.h"

namespace sim {
FaultCfg g_fault;
Armed::Armed() { g_fault.armed = true; g_fault.callsThisArm = 0; }
Armed::~Armed() { g_fault.armed = false; }
}

using sim::g_fault;

namespace {
typedef ssize_t (*read_t)(int, void*, size_t);
typedef ssize_t (*write_t)(int, const void*, size_t);
typedef ssize_t (*writev_t)(int, const struct iovec*, int);
typedef struct dirent* (*readdir_t)(DIR*);
typedef int (*closedir_t)(DIR*);

template <class F> F real(const char* name) {
	void* p = dlsym(RTLD_NEXT, name);
	if (!p) { const char m[] = "simrun: dlsym failed\n"; (void)!::syscall(1, 2, m, sizeof m - 1); _exit(70); }
	return reinterpret_cast<F>(p);
}
read_t realRead() { static read_t f = real<read_t>("read"); return f; }
write_t realWrite() { static write_t f = real<write_t>("write"); return f; }
writev_t realWritev() { static writev_t f = real<writev_t>("writev"); return f; }
readdir_t realReaddir() { static readdir_t f = real<readdir_t>("readdir"); return f; }
closedir_t realClosedir() { static closedir_t f = real<closedir_t>("closedir"); return f; }

bool applies(int fd) { return g_fault.armed && fd > 2; }

// returns true if the call must fail (budget exceeded / EINTR); sets errno
bool preCall(bool& eintrOut) {
	eintrOut = false;
	++g_fault.syscalls;
	if (++g_fault.callsThisArm > g_fault.ioBudget) {
		g_fault.budgetExceeded = true;
		errno = EIO;
		return true;
	}
	if (g_fault.eintr >= 2 && (++g_fault.eintrTick % g_fault.eintr) == 0) {
		++g_fault.firedEintr;
		errno = EINTR;
		eintrOut = true;
		return true;
	}
	return false;
}

const size_t kSinkMin = 65536;
ssize_t sinkAdvance(int fd, size_t n) {
	off_t pos = lseek(fd, static_cast<off_t>(n), SEEK_CUR);
	if (pos < 0) return -1;
	struct stat st;
	if (fstat(fd, &st) == 0 && st.st_size < pos) {
		if (ftruncate(fd, pos) != 0) return -1;
	}
	g_fault.sunkBytes += n;
	return static_cast<ssize_t>(n);
}

struct DirState {
	std::vector<struct dirent> entries;
	size_t next = 0;
};
std::map<DIR*, DirState>& dirStates() {
	static std::map<DIR*, DirState> m;
	return m;
}
uint64_t g_dirOrdinal = 0;
}

extern "C" {

ssize_t read(int fd, void* buf, size_t n) {
	if (!applies(fd)) return realRead()(fd, buf, n);
	bool e;
	if (preCall(e)) return -1;
	if (g_fault.shortRead && n > g_fault.shortRead) {
		n = g_fault.shortRead;
		++g_fault.firedShortRead;
	}
	return realRead()(fd, buf, n);
}

ssize_t write(int fd, const void* buf, size_t n) {
	if (!applies(fd)) return realWrite()(fd, buf, n);
	bool e;
	if (preCall(e)) return -1;
	if (g_fault.sink && n >= kSinkMin) return sinkAdvance(fd, n);
	if (g_fault.shortWrite && n > g_fault.shortWrite) {
		n = g_fault.shortWrite;
		++g_fault.firedShortWrite;
	}
	return realWrite()(fd, buf, n);
}

ssize_t writev(int fd, const struct iovec* iov, int cnt) {
	if (!applies(fd)) return realWritev()(fd, iov, cnt);
	bool e;
	if (preCall(e)) return -1;
	if (g_fault.sink) {
		ssize_t total = 0;
		for (int i = 0; i < cnt; ++i) {
			ssize_t r;
			if (iov[i].iov_len >= kSinkMin) r = sinkAdvance(fd, iov[i].iov_len);
			else r = realWrite()(fd, iov[i].iov_base, iov[i].iov_len);
			if (r < 0) return total ? total : -1;
			total += r;
			if (static_cast<size_t>(r) < iov[i].iov_len) break;
		}
		return total;
	}
	if (g_fault.shortWrite && cnt > 0) {
		// degrade to (a bounded part of) the first non-empty iovec: a legal short writev
		for (int i = 0; i < cnt; ++i) {
			if (iov[i].iov_len == 0) continue;
			size_t n = iov[i].iov_len;
			if (n > g_fault.shortWrite) n = g_fault.shortWrite;
			++g_fault.firedShortWrite;
			return realWrite()(fd, iov[i].iov_base, n);
		}
	}
	return realWritev()(fd, iov, cnt);
}

// positional and vectored variants: same fault kinds, so a library that moves its I/O from iostreams to raw descriptors
// meets the same environment
ssize_t pread64(int fd, void* buf, size_t n, off64_t off) {
	typedef ssize_t (*fn)(int, void*, size_t, off64_t);
	static fn f = real<fn>("pread64");
	if (!applies(fd)) return f(fd, buf, n, off);
	bool e;
	if (preCall(e)) return -1;
	if (g_fault.shortRead && n > g_fault.shortRead) { n = g_fault.shortRead; ++g_fault.firedShortRead; }
	return f(fd, buf, n, off);
}
ssize_t pread(int fd, void* buf, size_t n, off_t off) { return pread64(fd, buf, n, off); }
ssize_t pwrite64(int fd, const void* buf, size_t n, off64_t off) {
	typedef ssize_t (*fn)(int, const void*, size_t, off64_t);
	static fn f = real<fn>("pwrite64");
	if (!applies(fd)) return f(fd, buf, n, off);
	bool e;
	if (preCall(e)) return -1;
	if (g_fault.shortWrite && n > g_fault.shortWrite) { n = g_fault.shortWrite; ++g_fault.firedShortWrite; }
	return f(fd, buf, n, off);
}
ssize_t pwrite(int fd, const void* buf, size_t n, off_t off) { return pwrite64(fd, buf, n, off); }
ssize_t readv(int fd, const struct iovec* iov, int cnt) {
	typedef ssize_t (*fn)(int, const struct iovec*, int);
	static fn f = real<fn>("readv");
	if (!applies(fd)) return f(fd, iov, cnt);
	bool e;
	if (preCall(e)) return -1;
	if (g_fault.shortRead && cnt > 0) {
		for (int i = 0; i < cnt; ++i) {
			if (iov[i].iov_len == 0) continue;
			size_t n = iov[i].iov_len > g_fault.shortRead ? g_fault.shortRead : iov[i].iov_len;
			++g_fault.firedShortRead;
			return realRead()(fd, iov[i].iov_base, n);
		}
	}
	return f(fd, iov, cnt);
}

// ---- path trace: which paths does a library call create, rewrite, rename or remove? (observation only, nothing is changed) ----
static void notePath(const char* path) {
	if (!g_fault.armed || !path || g_fault.touchedCount >= sim::FaultCfg::kMaxTouched) return;
	for (int i = 0; i < g_fault.touchedCount; ++i) if (strncmp(g_fault.touched[i], path, sizeof g_fault.touched[0] - 1) == 0) return;
	strncpy(g_fault.touched[g_fault.touchedCount], path, sizeof g_fault.touched[0] - 1);
	g_fault.touched[g_fault.touchedCount][sizeof g_fault.touched[0] - 1] = 0;
	++g_fault.touchedCount;
}
static bool writeMode(const char* mode) { return mode && (strchr(mode, 'w') || strchr(mode, 'a') || strchr(mode, '+')); }
static bool failThisOpen() {
	if (!g_fault.armed || g_fault.openFailCountdown == 0) return false;
	if (--g_fault.openFailCountdown != 0) return false;
	++g_fault.firedOpenFail;
	errno = EMFILE;
	return true;
}

FILE* fopen64(const char* path, const char* mode) {
	typedef FILE* (*fn)(const char*, const char*);
	static fn f = real<fn>("fopen64");
	if (writeMode(mode)) notePath(path);
	else if (failThisOpen()) return nullptr;
	return f(path, mode);
}
FILE* fopen(const char* path, const char* mode) {
	typedef FILE* (*fn)(const char*, const char*);
	static fn f = real<fn>("fopen");
	if (writeMode(mode)) notePath(path);
	else if (failThisOpen()) return nullptr;
	return f(path, mode);
}
int open64(const char* path, int flags, ...) {
	typedef int (*fn)(const char*, int, ...);
	static fn f = real<fn>("open64");
	mode_t mode = 0;
	if (flags & (O_CREAT | O_TMPFILE)) { va_list ap; va_start(ap, flags); mode = static_cast<mode_t>(va_arg(ap, int)); va_end(ap); }
	if ((flags & (O_WRONLY | O_RDWR | O_CREAT | O_TRUNC)) != 0) notePath(path);
	else if (failThisOpen()) return -1;
	return f(path, flags, mode);
}
int open(const char* path, int flags, ...) {
	typedef int (*fn)(const char*, int, ...);
	static fn f = real<fn>("open");
	mode_t mode = 0;
	if (flags & (O_CREAT | O_TMPFILE)) { va_list ap; va_start(ap, flags); mode = static_cast<mode_t>(va_arg(ap, int)); va_end(ap); }
	if ((flags & (O_WRONLY | O_RDWR | O_CREAT | O_TRUNC)) != 0) notePath(path);
	else if (failThisOpen()) return -1;
	return f(path, flags, mode);
}
int rename(const char* from, const char* to) {
	typedef int (*fn)(const char*, const char*);
	static fn f = real<fn>("rename");
	notePath(from);
	notePath(to);
	return f(from, to);
}
int unlink(const char* path) {
	typedef int (*fn)(const char*);
	static fn f = real<fn>("unlink");
	notePath(path);
	return f(path);
}
int remove(const char* path) {
	typedef int (*fn)(const char*);
	static fn f = real<fn>("remove");
	notePath(path);
	return f(path);
}

struct dirent* readdir(DIR* d) {
	if (!g_fault.armed) return realReaddir()(d);
	auto& m = dirStates();
	auto it = m.find(d);
	if (it == m.end()) {
		DirState st;
		while (struct dirent* e = realReaddir()(d)) st.entries.push_back(*e);
		std::sort(st.entries.begin(), st.entries.end(), [](const dirent& a, const dirent& b) { return strcmp(a.d_name, b.d_name) < 0; });
		++g_dirOrdinal;
		if (g_fault.readdirSeed) {
			sim::Rng r(sim::mix64(g_fault.readdirSeed, g_dirOrdinal));
			for (size_t i = st.entries.size(); i > 1; --i) std::swap(st.entries[i - 1], st.entries[r.below(i)]);
			++g_fault.firedReaddir;
		}
		it = m.emplace(d, std::move(st)).first;
	}
	++g_fault.syscalls;
	DirState& st = it->second;
	if (st.next >= st.entries.size()) return nullptr;
	return &st.entries[st.next++];
}

struct dirent64* readdir64(DIR* d) {
	// struct dirent and dirent64 are identical on x86_64 glibc
	return reinterpret_cast<struct dirent64*>(readdir(d));
}

int closedir(DIR* d) {
	dirStates().erase(d);
	return realClosedir()(d);
}

} // extern "C"

namespace sim {
void resetDirOrdinal() { g_dirOrdinal = 0; dirStates().clear(); }
}

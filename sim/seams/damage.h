// Storage-damage operators of the simulated disk: what a reader can meet between "file written" and
// "file opened" — a crashed writer's prefix, a stored integer gone bad, coordinated field corruption,
// flipped bits, exchanged regions. Damage lands on structure: fields come from the reference encoder.
#pragma once
#include "../kernel/core.h"
#include <set>
#include <stdexcept>
#include <string>
#include <vector>

namespace sim {

struct Field { std::string name; size_t off; int width; };

inline uint64_t readField(const std::vector<uint8_t>& b, const Field& f) {
	uint64_t v = 0;
	for (int i = 0; i < f.width && i < 8; ++i) if (f.off + static_cast<size_t>(i) < b.size()) v |= static_cast<uint64_t>(b[f.off + static_cast<size_t>(i)]) << (8 * i);
	return v;
}
inline void writeField(std::vector<uint8_t>& b, const Field& f, uint64_t v) {
	for (int i = 0; i < f.width && i < 8; ++i) if (f.off + static_cast<size_t>(i) < b.size()) b[f.off + static_cast<size_t>(i)] = static_cast<uint8_t>(v >> (8 * i));
}
inline const Field* findField(const std::vector<Field>& fs, const std::string& name) {
	for (auto& f : fs) if (f.name == name) return &f;
	return nullptr;
}

// value tokens: "123"/"0x.." absolute, "+n" / "-n" relative to the stored value
inline uint64_t damageValue(const std::string& tok, uint64_t orig) {
	if (!tok.empty() && tok[0] == '+') return orig + parseU64(tok.substr(1));
	if (!tok.empty() && tok[0] == '-') return orig - parseU64(tok.substr(1));
	return parseU64(tok);
}

inline std::vector<uint8_t> applyDamage(const std::vector<uint8_t>& bytes, const std::vector<Field>& fields, const Line& d) {
	std::vector<uint8_t> b = bytes;
	const std::string& v = d.verb;
	if (v == "none") return b;
	if (v == "truncate") { size_t k = static_cast<size_t>(d.u("k", 0)); if (k < b.size()) b.resize(k); return b; }
	if (v == "subst" || v == "multi") {
		auto apply = [&](const std::string& fk, const std::string& vk) {
			if (!d.has(fk)) return;
			const Field* f = findField(fields, d.get(fk));
			if (!f) return;
			writeField(b, *f, damageValue(d.get(vk, "0"), readField(bytes, *f)));
		};
		if (v == "subst") apply("field", "value");
		else for (int i = 1; i <= 6; ++i) apply("f" + std::to_string(i), "v" + std::to_string(i));
		if (d.has("trunc")) { size_t k = static_cast<size_t>(d.u("trunc")); if (k < b.size()) b.resize(k); }
		if (d.has("poke")) { size_t at = static_cast<size_t>(d.u("poke")); if (at < b.size()) b[at] = static_cast<uint8_t>(d.u("pokeval", 0x78)); }
		if (d.has("extend")) b.resize(b.size() + static_cast<size_t>(d.u("extend")), static_cast<uint8_t>(d.u("extendval", 0)));
		return b;
	}
	if (v == "flip") {
		Rng r(d.u("seed", 1));
		uint64_t base = d.u("base", 0);
		if (base > b.size()) base = b.size();
		uint64_t region = d.u("region", b.size());
		if (region > b.size() - base) region = b.size() - base;
		uint64_t n = d.u("n", 1);
		for (uint64_t i = 0; i < n && region; ++i) { uint64_t bit = r.below(region * 8); b[base + (bit >> 3)] ^= static_cast<uint8_t>(1u << (bit & 7)); }
		return b;
	}
	if (v == "splice") {
		size_t a = static_cast<size_t>(d.u("a")), c = static_cast<size_t>(d.u("b")), len = static_cast<size_t>(d.u("len"));
		if (a + len <= b.size() && c + len <= b.size()) for (size_t i = 0; i < len; ++i) std::swap(b[a + i], b[c + i]);
		return b;
	}
	throw std::runtime_error("unknown damage kind " + v);
}

inline std::vector<uint64_t> boundaryValues(uint64_t orig, int width, uint64_t fileLen, uint64_t remaining) {
	static const uint64_t base[] = {0, 1, 2, 3, 4, 7, 8, 13, 14, 15, 16, 17, 31, 32, 33, 63, 64, 65, 0x7F, 0x80, 0xFF, 0x100, 0x101, 0x7FFF, 0x8000, 0xFFFF, 0x10000, 0x7FFFFFFF, 0x80000000ull, 0x80000001ull, 0x8000000Eull,
	                                0xFFFFFFF0ull, 0xFFFFFFF1ull, 0xFFFFFFF2ull, 0xFFFFFFF3ull, 0xFFFFFFF4ull, 0xFFFFFFF5ull, 0xFFFFFFF6ull, 0xFFFFFFF7ull,
	                                0xFFFFFFF8ull, 0xFFFFFFF9ull, 0xFFFFFFFAull, 0xFFFFFFFBull, 0xFFFFFFFCull, 0xFFFFFFFDull, 0xFFFFFFFEull, 0xFFFFFFFFull};
	std::vector<uint64_t> v(base, base + sizeof base / sizeof base[0]);
	const uint64_t hi = 0x80000000ull;
	// "same low bits, one higher bit set": survives any check that silently truncates the field to 8/16/24/30 bits
	const uint64_t extra[] = {orig ^ 0x100, orig ^ 0x10000, orig ^ 0x1000000, orig ^ 0x40000000ull, orig + 0x100, orig + 0x10000, fileLen - 1, fileLen, fileLen + 1, remaining - 1, remaining, remaining + 1, orig - 1, orig + 1, orig ^ hi, orig + 14, orig - 14, orig + 4, orig * 2,
	                          (fileLen | hi), (remaining | hi), ((fileLen + 1) | hi)};
	for (uint64_t x : extra) v.push_back(x);
	uint64_t mask = width >= 8 ? ~0ull : ((1ull << (8 * width)) - 1);
	std::set<uint64_t> seen;
	std::vector<uint64_t> out;
	for (uint64_t x : v) { x &= mask; if (x == (orig & mask) || seen.count(x)) continue; seen.insert(x); out.push_back(x); }
	return out;
}

// The generic part of a sweep: every prefix (small files) or structural cut points (large files),
// the field x boundary-value grid, seeded flips and splices in the header region.
inline std::vector<Line> enumerateGenericDamage(const std::vector<uint8_t>& bytes, const std::vector<Field>& fields, size_t headerLen, uint64_t seed, bool thorough, size_t headerStart = 0) {
	std::vector<Line> out;
	auto trunc = [&](size_t k) { Line l = mkline("damage", "truncate"); l.set("k", k); out.push_back(l); };
	if (bytes.size() <= 4096) for (size_t k = 0; k < bytes.size(); ++k) trunc(k);
	else {
		std::set<size_t> cuts;
		for (auto& f : fields) for (long d = -1; d <= 1; ++d) { long k = static_cast<long>(f.off) + d; if (k >= 0 && static_cast<size_t>(k) < bytes.size()) cuts.insert(static_cast<size_t>(k)); long e = static_cast<long>(f.off) + f.width + d; if (e >= 0 && static_cast<size_t>(e) < bytes.size()) cuts.insert(static_cast<size_t>(e)); }
		for (size_t m = 4096; m < bytes.size(); m += 4096) for (long d = -1; d <= 1; ++d) cuts.insert(static_cast<size_t>(static_cast<long>(m) + d));
		Rng r(seed ^ 0x7472756e63);
		for (int i = 0; i < 64; ++i) cuts.insert(static_cast<size_t>(r.below(bytes.size())));
		cuts.insert(bytes.size() - 1);
		for (size_t k : cuts) if (k < bytes.size()) trunc(k);
	}
	for (auto& f : fields) {
		if (f.width > 8) continue;
		uint64_t orig = readField(bytes, f);
		uint64_t remaining = bytes.size() - (f.off + static_cast<size_t>(f.width));
		for (uint64_t val : boundaryValues(orig, f.width, bytes.size(), remaining)) {
			Line l = mkline("damage", "subst");
			l.set("field", f.name).set("value", hex64(val));
			out.push_back(l);
		}
	}
	Rng r(seed ^ 0x666c6970);
	size_t nflips = thorough ? 96 : 32;
	for (size_t i = 0; i < nflips; ++i) { Line l = mkline("damage", "flip"); l.set("seed", hex64(r.next())).set("n", 1 + r.below(8)).set("region", headerLen ? headerLen : bytes.size()); if (headerStart) l.set("base", headerStart); out.push_back(l); }
	size_t nsplice = thorough ? 32 : 8;
	for (size_t i = 0; i < nsplice && headerLen >= 16; ++i) {
		size_t len = 4 * (1 + static_cast<size_t>(r.below(3)));
		size_t a = 4 * static_cast<size_t>(r.below(headerLen / 4)), b = 4 * static_cast<size_t>(r.below(headerLen / 4));
		if (a == b || a + len > bytes.size() || b + len > bytes.size() || (a < b ? a + len > b : b + len > a)) continue;
		Line l = mkline("damage", "splice");
		l.set("a", a).set("b", b).set("len", len);
		out.push_back(l);
	}
	return out;
}

} // namespace sim

// Family "vol-giant" (C02, C05, C13, C17): format-conforming volumes whose file size is 2 - 4 GiB, kept as sparse files on the
// simulated disk (holes where multi-GiB filler members lie), so that small members sit at block offsets on and around the
// 2^31 and 2^32 boundaries - where a signed or 32-bit offset computation in the reader goes wrong while every small archive
// behaves. The header, the block headers and the small payloads are real bytes from the independent encoder; each run opens the
// archive once and issues a seeded history of listing, lookup, stream, extraction and resource-manager calls against the small
// members. Nothing multi-GiB is ever read or written: only holes are that large.
#include "volworld.h"
#include "../models/refclm.h"
#include "../models/reflzh.h"
#include "Archive/ClmFile.h"
#include "ResourceManager.h"
#include "Archive/VolFile.h"
#include <sys/mman.h>
#include <map>
#include <memory>
#include <stdexcept>

using namespace OP2Utility;

namespace sim {
namespace {

// tail member's block offset (its payload starts 8 bytes later)
const uint64_t kTargets[] = {
	0x7FFFFFF0ull, 0x7FFFFFF4ull, 0x7FFFFFF8ull, 0x7FFFFFFCull, 0x80000000ull, 0x80000004ull, 0x80000010ull,
	0x7FFFFF00ull, // tail payload straddles 2^31 when it is longer than 248 bytes
	0xFFFFFFF0ull, 0xFFFFFFF4ull, 0xFFFFFFF8ull, 0xFFFFFFFCull,
	0xFFFFFF00ull, // tail payload straddles 2^32
	0xC0000000ull, 0x100000ull,
};

struct VolGiant : Family {
	std::string name() const override { return "vol-giant"; }

	Plan generate(const std::string& prop, Rng& r, bool) override {
		Plan p;
		swarmEnv(p, r, true, true);
		p.setenv("readdir", r.next() | 1);
		Line w = mkline("world", "giant");
		size_t nt = sizeof kTargets / sizeof kTargets[0];
		static const uint64_t kClmTargets[] = {0x7FFFFFF0ull, 0x7FFFFFFFull, 0x80000000ull, 0x80000001ull, 0xFFFFFD00ull, 0xC0000001ull};
		bool clm = prop != "C02" && prop != "C04" && (g_genIndex / nt) % 3 == 2; // every third pass over the target list is a CLM
		if (clm) w.set("kind", "clm");
		w.set("target", hex64(clm ? kClmTargets[g_genIndex % 6] : kTargets[g_genIndex % nt])).set("seed", hex64(r.next())).set("lenA", r.chance(1, 4) ? r.below(4) : r.below(400)).set("lenZ", r.chance(1, 4) ? r.below(4) : r.below(600)).set("second", r.below(2));
		p.world.push_back(w);
		size_t nops = static_cast<size_t>(r.range(4, 24));
		for (size_t i = 0; i < nops; ++i) {
			Line op;
			uint64_t k = r.below(100);
			uint64_t who = r.below(3); // 0 = first small member, 1 = tail member, 2 = member after the tail (if any)
			if (k < 10) op = mkline("op", "listing");
			else if (k < 45) { op = mkline("op", "stream"); op.set("who", who).set("byname", r.below(2)).set("case", r.below(6)).set("rseed", hex64(r.next())); }
			else if (k < 70) { op = mkline("op", "extract"); op.set("who", who).set("byname", r.below(2)).set("case", r.below(6)); }
			else if (k < 85) { op = mkline("op", "resource"); op.set("who", who).set("case", r.below(6)); }
			else { op = mkline("op", "lookup"); op.set("who", who).set("case", r.below(6)); }
			p.ops.push_back(op);
		}
		// now and then: one partial read of more than 2^31 bytes straight from the giant file (C13; the buffer is never-touched anonymous memory)
		if (prop == "C13" && !clm && g_genIndex % 20 == 3) { Line op = mkline("op", "bigread"); op.set("start", r.below(4096)).set("extra", r.chance(1, 2) ? r.below(100000) : (1ull << 31)).set("slice", r.below(2)); p.ops.push_back(op); }
		return p;
	}

	void execute(const Plan& plan, RunCtx& ctx) override {
		const std::string P = plan.property;
		const std::string clListing = P == "C02" ? "C02.foreign-listing" : P == "C05" ? "C05.extent" : P == "C13" ? "C13.backend-equal" : P == "C04" ? "C04.extract-equals" : "C17.lookup-agree";
		const std::string clBytes = P == "C02" ? "C02.foreign-payload" : P == "C05" ? "C05.extent" : P == "C13" ? "C13.confined" : P == "C04" ? "C04.extract-equals" : "C17.loose-first";
		uint64_t target = 0, seed = 1, lenA = 0, lenZ = 0;
		bool second = false;
		for (auto& l : plan.world) if (l.verb == "giant") { target = l.u("target"); seed = l.u("seed", 1); lenA = l.u("lenA"); lenZ = l.u("lenZ"); second = l.u("second") != 0; }
		bool isClm = false;
		for (auto& l : plan.world) if (l.verb == "giant" && l.get("kind") == "clm") isClm = true;
		if (isClm) { executeClm(plan, ctx, target, seed, lenA, lenZ, clListing, clBytes); return; }
		if (target < 0x1000 || (target & 3) || target > 0xFFFFFFFCull || lenA > 4096 || lenZ > 4096) throw std::runtime_error("bad giant world");
		Rng r(seed);
		// names sort in the listed order: a..., f0.., f1.., z0..., z1...
		std::vector<ref::VolMember> ms;
		std::vector<uint64_t> virt;
		std::map<size_t, std::vector<uint8_t>> decoded; // LZH members: what extraction must write (reference decoder)
		bool wantLzh = P == "C04" || (seed & 3) == 0;
		auto small = [&](const std::string& name, uint64_t len) {
			ref::VolMember m; m.name = name;
			std::vector<uint8_t> payload = prngBytes(r.next(), static_cast<size_t>(len));
			if (wantLzh && name[0] == 'z') {
				for (auto& c : payload) c = static_cast<uint8_t>('a' + c % 5);
				m.stored = ref::lzhEncode(ref::tokenize(payload, r.next()));
				m.kind = 0x103;
				decoded[ms.size()] = ref::lzhDecode(m.stored).out;
				m.size = static_cast<uint32_t>(decoded[ms.size()].size());
			} else { m.stored = payload; m.size = static_cast<uint32_t>(len); }
			ms.push_back(m); virt.push_back(0);
		};
		small("a" + randName(r, 1, 6, false) + ".dat", lenA);
		size_t firstFiller = ms.size();
		const uint64_t kMaxFiller = 0x7FFFFF00ull;
		size_t nFill = target > 0x90000000ull ? 3 : target > 0x7FFFF000ull ? 2 : 1;
		for (size_t i = 0; i < nFill; ++i) { ref::VolMember m; m.name = "f" + std::to_string(i) + randName(r, 1, 4, false) + ".bin"; ms.push_back(m); virt.push_back(4); }
		size_t tail = ms.size();
		small("z0" + randName(r, 1, 6, false) + ".txt", lenZ);
		bool haveSecond = second && target + 8 + ((ms[tail].stored.size() + 3) & ~3ull) <= 0xFFFFFFFCull;
		if (haveSecond) small("z1" + randName(r, 1, 6, false) + ".txt", 1 + r.below(300));
		// choose the filler lengths so that the tail's block offset is exactly the target
		ref::VolSparseImage probe = ref::encodeVolSparse(ms, virt);
		uint64_t base = probe.blockOffsets[tail]; // with every filler 4 bytes long
		if (base > target) throw std::runtime_error("giant target below the header");
		uint64_t extra = target - base; // to distribute, multiples of 4
		for (size_t i = 0; i < nFill; ++i) {
			uint64_t share = i + 1 == nFill ? extra : ((extra / (nFill - i)) & ~3ull);
			virt[firstFiller + i] = 4 + share;
			extra -= share;
		}
		ref::VolSparseImage im = ref::encodeVolSparse(ms, virt);
		if (!im.representable || im.blockOffsets[tail] != target) throw std::runtime_error("giant layout failed");
		for (size_t i = 0; i < nFill; ++i) if (virt[firstFiller + i] > kMaxFiller) throw std::runtime_error("giant filler too large");
		const char* kDir = "_g";
		std::string path = std::string(kDir) + "/big.vol";
		disk::putPieces(path, im.pieces, im.total);
		ctx.count(target + 8 >= (1ull << 32) ? "probe.tail_payload_beyond_4GiB" : target + 8 + lenZ > (1ull << 31) ? "probe.tail_payload_beyond_2GiB" : "probe.tail_payload_below_2GiB");
		if (!decoded.empty()) ctx.count("probe.lzh_member_at_a_large_offset");
		const std::string clExtract = P == "C04" ? "C04.extract-equals" : clBytes;
		ctx.schedNote(hex64(target));
		std::unique_ptr<Archive::VolFile> vol;
		std::string what;
		ctx.setOp(0);
		Out o = callLib(plan, [&] { vol = std::make_unique<Archive::VolFile>(path); }, &what);
		if (o != OkOut) ctx.fail(clListing, "opening a format-conforming " + std::to_string(im.total) + "-byte volume (tail member at block offset " + hex64(target) + ") failed: " + what);
		std::unique_ptr<ResourceManager> rm;
		std::vector<size_t> smalls = {0, tail};
		if (haveSecond) smalls.push_back(tail + 1);
		for (size_t oi = 0; oi < plan.ops.size(); ++oi) {
			const Line& op = plan.ops[oi];
			ctx.setOp(oi);
			size_t mi = smalls[static_cast<size_t>(op.u("who", 0)) % smalls.size()];
			const ref::VolMember& m = ms[mi];
			std::string q = caseVariant(m.name, op.u("case", 0));
			std::string where = "member " + std::to_string(mi) + " '" + m.name + "' (block offset " + hex64(im.blockOffsets[mi]) + ", " + std::to_string(m.stored.size()) + " bytes)";
			if (op.verb == "bigread") {
				// ONE partial read of more than 2^31 bytes from a file reader / file slice over the giant file, into untouched anonymous
				// memory: delivers min(requested, remaining), advances by that, and the bytes are the file's (checked at every piece that
				// is not a hole and at sampled holes)
				uint64_t start = op.u("start", 0) % 4096;
				uint64_t ask = (1ull << 31) + op.u("extra", 0);
				bool slice = op.u("slice", 0) != 0;
				if (start >= im.total) continue;
				uint64_t remaining = im.total - start;
				// in bounds: a plain file reader is asked for no more than it has left (what it does beyond its end is not the subject of
				// C13); a file slice clamps the request itself, so it may be asked for more
				if (!slice && ask > remaining) ask = remaining;
				if (ask <= (1ull << 31)) { ctx.event("bigread skipped"); continue; }
				uint64_t expect = ask < remaining ? ask : remaining;
				void* mem = mmap(nullptr, static_cast<size_t>(ask), PROT_READ | PROT_WRITE, MAP_PRIVATE | MAP_ANONYMOUS | MAP_NORESERVE, -1, 0);
				if (mem == MAP_FAILED) throw std::runtime_error("mmap of the big read buffer failed");
				uint32_t keepShort = g_fault.shortRead, keepEintr = g_fault.eintr;
				g_fault.shortRead = 0; g_fault.eintr = 0; // a 2 GiB transfer in 7-byte pieces is not a schedule worth its time
				uint64_t got = 0, posAfter = 0;
				o = callLib(plan, [&] {
					Stream::FileReader fr(path);
					if (slice) { Stream::FileSliceReader sl = fr.Slice(start, remaining); got = sl.ReadPartial(mem, static_cast<size_t>(ask)); posAfter = sl.Position() + start; }
					else { fr.Seek(start); got = fr.ReadPartial(mem, static_cast<size_t>(ask)); posAfter = fr.Position(); }
				}, &what);
				g_fault.shortRead = keepShort; g_fault.eintr = keepEintr;
				std::string desc = std::string(slice ? "file slice" : "file reader") + " over " + std::to_string(im.total) + " bytes at position " + std::to_string(start) + ": ReadPartial of " + std::to_string(ask) + " bytes";
				std::string bad;
				if (o != OkOut) bad = desc + " failed: " + what;
				else if (got != expect) bad = desc + " delivered " + std::to_string(got) + ", min(requested, remaining) is " + std::to_string(expect);
				else if (posAfter != start + expect) bad = desc + " left the position at " + std::to_string(posAfter) + ", expected " + std::to_string(start + expect);
				else {
					const uint8_t* b = static_cast<const uint8_t*>(mem);
					for (auto& pc : im.pieces) {
						for (size_t q = 0; q < pc.second.size() && bad.empty(); ++q) { uint64_t at = pc.first + q; if (at >= start && at < start + got && b[at - start] != pc.second[q]) bad = desc + ": byte at file offset " + std::to_string(at) + " differs from the file"; }
					}
					// holes read as zero: sampled, around 2^31 in particular
					for (uint64_t at : std::vector<uint64_t>{start + 5000, (1ull << 31) - 1, (1ull << 31), (1ull << 31) + 1, start + got - 1}) {
						if (at < start || at >= start + got || !bad.empty()) continue;
						bool inPiece = false;
						for (auto& pc : im.pieces) if (at >= pc.first && at < pc.first + pc.second.size()) inPiece = true;
						if (!inPiece && b[at - start] != 0) bad = desc + ": byte at file offset " + std::to_string(at) + " (a hole) is not zero";
					}
				}
				munmap(mem, static_cast<size_t>(ask));
				if (!bad.empty()) ctx.fail("C13.backend-equal", bad);
				ctx.count("probe.single_read_beyond_2GiB");
				ctx.event("bigread " + std::to_string(got));
				continue;
			}
			if (op.verb == "listing") {
				size_t n = 0;
				o = callLib(plan, [&] { n = vol->GetCount(); }, &what);
				if (o != OkOut || n != ms.size()) ctx.fail(clListing, "GetCount = " + std::to_string(n) + ", the archive holds " + std::to_string(ms.size()) + " members");
				for (size_t i = 0; i < ms.size(); ++i) {
					std::string nm;
					uint32_t sz = 0;
					Archive::CompressionType ct = Archive::CompressionType::Uncompressed;
					o = callLib(plan, [&] { nm = vol->GetName(i); sz = vol->GetSize(i); ct = vol->GetCompressionCode(i); }, &what);
					uint64_t wantSize = virt[i] ? virt[i] : ms[i].size;
					if (o != OkOut || nm != ms[i].name || sz != wantSize || static_cast<int>(ct) != ms[i].kind) ctx.fail(clListing, "listing of member " + std::to_string(i) + " gives '" + nm + "', size " + std::to_string(sz) + "; the archive records '" + ms[i].name + "', size " + std::to_string(wantSize) + " (" + what + ")");
				}
				ctx.event("listing");
			} else if (op.verb == "lookup") {
				size_t idx = SIZE_MAX;
				bool has = false;
				o = callLib(plan, [&] { has = vol->Contains(q); idx = vol->GetIndex(q); }, &what);
				if (o != OkOut || !has || idx != mi) ctx.fail(clListing, "lookup of '" + q + "' gives " + std::to_string(idx) + " (" + what + "); it is " + where);
				ctx.event("lookup");
			} else if (op.verb == "stream") {
				std::vector<uint8_t> got;
				uint64_t len = 0;
				o = callLib(plan, [&] {
					std::unique_ptr<Stream::BidirectionalReader> s = op.u("byname") ? static_cast<Archive::ArchiveFile&>(*vol).OpenStream(q) : vol->OpenStream(mi);
					len = s->Length();
					if (len > (1u << 20)) return;
					got.resize(static_cast<size_t>(len));
					// seeded chunking
					Rng cr(op.u("rseed", 1));
					size_t done = 0;
					while (done < got.size()) { size_t k = static_cast<size_t>(cr.range(1, 97)); if (k > got.size() - done) k = got.size() - done; s->Read(got.data() + done, k); done += k; }
				}, &what);
				if (o != OkOut) ctx.fail(clBytes, "OpenStream / read of " + where + " failed: " + what);
				if (len != m.stored.size() || got != m.stored) ctx.fail(clBytes, "stream of " + where + " delivers " + std::to_string(len) + " bytes that are not the member's bytes");
				ctx.event("stream " + std::to_string(mi));
			} else if (op.verb == "extract") {
				std::string dest = "_x/e" + std::to_string(oi) + ".bin";
				o = callLib(plan, [&] { if (op.u("byname")) static_cast<Archive::ArchiveFile&>(*vol).ExtractFile(q, dest); else vol->ExtractFile(mi, dest); }, &what);
				std::vector<uint8_t> f;
				const std::vector<uint8_t>& wantFile = decoded.count(mi) ? decoded[mi] : m.stored;
				if (o != OkOut || !disk::get(dest, f) || f != wantFile) ctx.fail(clExtract, "ExtractFile of " + where + (decoded.count(mi) ? " (LZH: the reference decoder's output is expected)" : "") + " failed or wrote other bytes (" + what + ")");
				ctx.event("extract " + std::to_string(mi));
			} else if (op.verb == "resource") {
				if (!rm) {
					o = callLib(plan, [&] { rm = std::make_unique<ResourceManager>(kDir); }, &what);
					if (o != OkOut) ctx.fail(clBytes, "constructing a ResourceManager over the directory of the volume failed: " + what);
				}
				std::vector<uint8_t> got;
				bool none = false;
				o = callLib(plan, [&] {
					auto s = rm->GetResourceStream(q, true);
					if (!s) { none = true; return; }
					uint64_t len = s->Length();
					if (len > (1u << 20)) return;
					got.resize(static_cast<size_t>(len));
					s->Read(got.data(), got.size());
				}, &what);
				if (o != OkOut || none || got != m.stored) ctx.fail(clBytes, "GetResourceStream('" + q + "') " + (none ? "returned nothing" : o != OkOut ? "failed: " + what : "returned other bytes") + "; no loose file of that name exists and the loaded archive holds " + where);
				ctx.event("resource " + std::to_string(mi));
			} else throw std::runtime_error("unknown op " + op.verb);
		}
		{ Armed a; rm.reset(); vol.reset(); }
		ctx.nontrivial = true;
		ctx.count("library_calls", plan.ops.size() + 1);
	}
	// A sparse CLM: track "a" (small), track "f" (a multi-GiB hole), track "z" (small) whose data offset is the target.
	void executeClm(const Plan& plan, RunCtx& ctx, uint64_t target, uint64_t seed, uint64_t lenA, uint64_t lenZ, const std::string& clListing, const std::string& clBytes) {
		if (target < 0x10000 || target > 0xFFFFFFFFull || lenA > 4096 || lenZ > 4096 || target + lenZ > 0xFFFFFFFFull) throw std::runtime_error("bad giant clm world");
		Rng r(seed);
		ref::WaveFormat fmt;
		std::vector<ref::ClmMember> ms(3);
		ms[0].name = "a" + randName(r, 1, 6, false); ms[0].data = prngBytes(r.next(), static_cast<size_t>(lenA));
		ms[1].name = "f" + randName(r, 1, 6, false);
		ms[2].name = "z" + randName(r, 1, 6, false);
		std::vector<uint8_t> zdata = prngBytes(r.next(), static_cast<size_t>(lenZ));
		std::vector<uint8_t> head = ref::encodeClm(fmt, ms).bytes; // header + index + track a
		const uint64_t H = 60 + 16 * 3, fOff = H + lenA, fLen = target - fOff;
		auto poke32 = [&](size_t off, uint64_t v) { for (int i = 0; i < 4; ++i) head[off + static_cast<size_t>(i)] = static_cast<uint8_t>(v >> (8 * i)); };
		poke32(60 + 16 * 1 + 8, fOff); poke32(60 + 16 * 1 + 12, fLen);
		poke32(60 + 16 * 2 + 8, target); poke32(60 + 16 * 2 + 12, lenZ);
		const char* kDir = "_g";
		std::string path = std::string(kDir) + "/big.clm";
		disk::putPieces(path, {{0, head}, {target, zdata}}, target + lenZ);
		ctx.count(target >= (1ull << 31) ? "probe.clm_track_beyond_2GiB" : "probe.clm_track_below_2GiB");
		ctx.schedNote("clm" + hex64(target));
		std::unique_ptr<Archive::ClmFile> clm;
		std::string what;
		ctx.setOp(0);
		Out o = callLib(plan, [&] { clm = std::make_unique<Archive::ClmFile>(path); }, &what);
		if (o != OkOut) ctx.fail(clListing, "opening a format-conforming " + std::to_string(target + lenZ) + "-byte clump (last track at data offset " + hex64(target) + ") failed: " + what);
		std::unique_ptr<ResourceManager> rm;
		const size_t smalls[] = {0, 2};
		const std::vector<uint8_t>* datas[] = {&ms[0].data, nullptr, &zdata};
		const uint64_t lens[] = {lenA, fLen, lenZ}, offs[] = {H, fOff, target};
		for (size_t oi = 0; oi < plan.ops.size(); ++oi) {
			const Line& op = plan.ops[oi];
			ctx.setOp(oi);
			size_t mi = smalls[static_cast<size_t>(op.u("who", 0)) % 2];
			const std::vector<uint8_t>& want = *datas[mi];
			std::string q = caseVariant(ms[mi].name, op.u("case", 0));
			std::string where = "track " + std::to_string(mi) + " '" + ms[mi].name + "' (data offset " + hex64(offs[mi]) + ", " + std::to_string(want.size()) + " bytes)";
			if (op.verb == "listing") {
				for (size_t i = 0; i < 3; ++i) {
					std::string nm; uint32_t sz = 0;
					o = callLib(plan, [&] { nm = clm->GetName(i); sz = clm->GetSize(i); }, &what);
					if (o != OkOut || nm != ms[i].name || sz != lens[i] || clm->GetCount() != 3) ctx.fail(clListing, "listing of track " + std::to_string(i) + " gives '" + nm + "', size " + std::to_string(sz) + "; the clump records '" + ms[i].name + "', " + std::to_string(lens[i]) + " (" + what + ")");
				}
				ctx.event("listing");
			} else if (op.verb == "lookup") {
				size_t idx = SIZE_MAX; bool has = false;
				o = callLib(plan, [&] { has = clm->Contains(q); idx = clm->GetIndex(q); }, &what);
				if (o != OkOut || !has || idx != mi) ctx.fail(clListing, "lookup of '" + q + "' gives " + std::to_string(idx) + " (" + what + "); it is " + where);
				ctx.event("lookup");
			} else if (op.verb == "stream" || op.verb == "resource") {
				std::vector<uint8_t> got; bool none = false;
				bool viaRm = op.verb == "resource";
				if (viaRm && !rm) {
					o = callLib(plan, [&] { rm = std::make_unique<ResourceManager>(kDir); }, &what);
					if (o != OkOut) ctx.fail(clBytes, "constructing a ResourceManager over the directory of the clump failed: " + what);
				}
				o = callLib(plan, [&] {
					std::unique_ptr<Stream::BidirectionalReader> s = viaRm ? rm->GetResourceStream(q, true) : op.u("byname") ? static_cast<Archive::ArchiveFile&>(*clm).OpenStream(q) : clm->OpenStream(mi);
					if (!s) { none = true; return; }
					uint64_t len = s->Length();
					if (len > (1u << 20)) { got.assign(1, 0); got.resize(static_cast<size_t>(want.size() + 1)); return; }
					got.resize(static_cast<size_t>(len));
					s->Read(got.data(), got.size());
				}, &what);
				if (o != OkOut || none || got != want) ctx.fail(clBytes, std::string(viaRm ? "GetResourceStream" : "OpenStream") + " of " + where + (none ? " returned nothing" : o != OkOut ? " failed: " + what : " delivers other bytes"));
				ctx.event(op.verb + std::to_string(mi));
			} else if (op.verb == "extract") {
				std::string dest = "_x/e" + std::to_string(oi) + ".wav";
				o = callLib(plan, [&] { if (op.u("byname")) static_cast<Archive::ArchiveFile&>(*clm).ExtractFile(q, dest); else clm->ExtractFile(mi, dest); }, &what);
				std::vector<uint8_t> f;
				std::string problem = o != OkOut ? "failed: " + what : !disk::get(dest, f) ? "left no file" : ref::checkExtractedWav(f, fmt, want);
				if (!problem.empty()) ctx.fail(clBytes, "ExtractFile of " + where + " " + problem);
				ctx.event("extract " + std::to_string(mi));
			} else throw std::runtime_error("unknown op " + op.verb);
		}
		{ Armed a; rm.reset(); clm.reset(); }
		ctx.nontrivial = true;
		ctx.count("library_calls", plan.ops.size() + 1);
	}

	std::string signatureDetail(const Plan& p, const Violation& v) override { return v.opIndex < p.ops.size() ? p.ops[v.opIndex].verb : ""; }
};
FamilyRegistrar regVolGiant(new VolGiant);

} // namespace
} // namespace sim

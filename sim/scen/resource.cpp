// Family "resource-layout" (C17): a directory layout of loose files, sub-directories (some carrying
// archive extensions) and VOL/CLM archives from the reference encoders with overlapping member names;
// the order in which the directory lists its entries is a scheduled nondeterminism (seeded readdir
// permutation). Queries against ResourceManager and against each archive object are checked with a
// directory-layout model that holds the SET of allowed answers where the property leaves a choice.
#include "volworld.h"
#include "../models/refclm.h"
#include "ResourceManager.h"
#include "Archive/ClmFile.h"
#include "Archive/VolFile.h"
#include <unistd.h>
#include <algorithm>
#include <map>
#include <set>
#include <stdexcept>

using namespace OP2Utility;

namespace sim {
namespace {

const char* kDir = "0"; // digits only, so letter patterns can never match the directory part of a path

std::string lower(std::string s) { for (auto& c : s) if (c >= 'A' && c <= 'Z') c = static_cast<char>(c + 32); return s; }
std::string extOf(const std::string& n) { auto d = n.rfind('.'); if (d == std::string::npos || d == 0) return ""; return n.substr(d); }
bool containsNoCase(const std::string& hay, const std::string& needle) { return lower(hay).find(lower(needle)) != std::string::npos; }

struct Ar { std::string file; bool clm = false; std::vector<Member> members; std::vector<std::string> surplus; uint32_t spare = 0; };

struct Layout {
	std::map<std::string, std::vector<uint8_t>> loose; // regular files in kDir (exact spelling), archives included
	std::set<std::string> subdirs;
	std::vector<Ar> archives;
	std::vector<std::string> pool;
};

Layout buildLayout(const Plan& plan) {
	Layout L;
	std::map<uint64_t, Ar> ars;
	for (auto& l : plan.world) {
		if (l.verb == "pool") L.pool.push_back(unquoteToken(l.get("name")));
		else if (l.verb == "loose") L.loose[unquoteToken(l.get("name"))] = prngBytes(l.u("cseed"), static_cast<size_t>(l.u("len")));
		else if (l.verb == "subdir") L.subdirs.insert(unquoteToken(l.get("name")));
		else if (l.verb == "archive") { Ar a; a.file = unquoteToken(l.get("file")); a.clm = l.get("kind", "vol") == "clm"; a.spare = static_cast<uint32_t>(l.u("spare", 0)); ars[l.u("k")] = a; }
	}
	for (auto& l : plan.world) {
		if (l.verb != "amember") continue;
		auto it = ars.find(l.u("ar"));
		if (it == ars.end()) continue;
		Member m;
		m.name = unquoteToken(l.get("name"));
		if (it->second.clm) { m.name = m.name.substr(0, 8); for (auto& c : m.name) if (!(isalnum(static_cast<unsigned char>(c)) || c == '_')) c = '_'; }
		if (m.name.empty()) continue;
		if (!it->second.clm && l.u("dotslash", 0)) m.name = "./" + m.name; // a foreign archive may store such a name
		m.data = prngBytes(l.u("cseed"), static_cast<size_t>(l.u("len")));
		m.stored = m.data;
		m.size = static_cast<uint32_t>(m.data.size());
		bool clash = false;
		auto bare = [](const std::string& n) { return n.rfind("./", 0) == 0 ? n.substr(2) : n; };
		for (auto& o : it->second.members) if (ref::nameEqualNoCase(bare(o.name), bare(m.name))) clash = true;
		if (!clash) it->second.members.push_back(m);
	}
	// names that sit in a volume's name table without a valid index entry (unused slots): they are NOT members
	for (auto& l : plan.world) {
		if (l.verb != "asurplus") continue;
		auto it = ars.find(l.u("ar"));
		if (it == ars.end() || it->second.clm) continue;
		std::string n = unquoteToken(l.get("name"));
		bool clash = n.empty();
		for (auto& o : it->second.members) if (ref::nameEqualNoCase(o.name, n)) clash = true;
		for (auto& o : it->second.surplus) if (ref::nameEqualNoCase(o, n)) clash = true;
		if (!clash) it->second.surplus.push_back(n);
	}
	for (auto& kv : ars) {
		Ar& a = kv.second;
		std::sort(a.members.begin(), a.members.end(), [](const Member& x, const Member& y) { return ref::nameCompare(x.name, y.name) < 0; });
		if (L.loose.count(a.file) || L.subdirs.count(a.file)) continue;
		bool dupFile = false;
		for (auto& o : L.archives) if (o.file == a.file) dupFile = true;
		if (dupFile) continue;
		L.archives.push_back(a);
	}
	for (auto& d : L.subdirs) L.loose.erase(d);
	return L;
}

void materialise(Layout& L) {
	disk::mkdirs(kDir);
	for (auto& f : L.loose) disk::put(std::string(kDir) + "/" + f.first, f.second);
	for (auto& d : L.subdirs) { disk::mkdirs(std::string(kDir) + "/" + d); disk::put(std::string(kDir) + "/" + d + "/inner.txt", prngBytes(1, 5)); }
	for (auto& a : L.archives) {
		std::vector<uint8_t> bytes;
		if (a.clm) { std::vector<ref::ClmMember> ms; for (auto& m : a.members) { ref::ClmMember cmm; cmm.name = m.name; cmm.data = m.data; uint64_t hsh = mix64(fnv1a(reinterpret_cast<const uint8_t*>(m.name.data()), m.name.size()), m.data.size()); if (hsh % 3 == 0) cmm.tailSeed = hsh | 1; ms.push_back(cmm); } bytes = ref::encodeClm(ref::WaveFormat(), ms).bytes; }
		else {
			std::vector<ref::VolMember> v;
			for (auto& m : a.members) { ref::VolMember x; x.name = m.name; x.stored = m.stored; x.size = m.size; x.kind = m.kind; v.push_back(x); }
			bytes = ref::encodeVol(v, a.spare + static_cast<uint32_t>(a.surplus.size()), a.surplus).bytes;
		}
		disk::put(std::string(kDir) + "/" + a.file, bytes);
		L.loose[a.file] = bytes; // an archive is also a regular file of the directory
	}
}

struct ResourceLayout : Family {
	std::string name() const override { return "resource-layout"; }

	Plan generate(const std::string&, Rng& r, bool thorough) override {
		Plan p;
		swarmEnv(p, r, true, false);
		p.setenv("readdir", r.next() | 1); // load/listing order is always a seeded permutation
		static const char* EXT[] = {".txt", ".map", ".bmp", ".TXT", "", ""};
		size_t npool = static_cast<size_t>(r.chance(1, 12) ? r.range(18, 30) : r.range(3, 8));
		std::vector<std::string> pool;
		for (size_t i = 0; i < npool; ++i) {
			std::string nm;
			for (int t = 0; t < 20; ++t) {
				nm = randName(r, 1, 7, false) + EXT[r.below(6)];
				if (!pool.empty() && r.chance(1, 3)) nm = tieProneSibling(pool[r.below(pool.size())], r); // names a sloppy comparison confuses or mis-orders
				if (r.chance(1, 8)) nm = digestTwin(pool, r, 8); // different names with one 32-bit digest
				if (!nm.empty() && nm[0] == '_') nm[0] = '^';
				bool c = nm.find('/') != std::string::npos;
				for (auto& o : pool) if (ref::nameEqualNoCase(o, nm)) c = true;
				if (!c) break;
				nm.clear();
			}
			if (nm.empty()) continue;
			pool.push_back(nm);
			Line l = mkline("world", "pool"); l.set("name", quoteToken(nm)); p.world.push_back(l);
		}
		auto pick = [&]() { return caseVariant(pool[r.below(pool.size())], r.chance(1, 2) ? 0 : r.below(4)); };
		size_t nloose = static_cast<size_t>(r.below(5));
		for (size_t i = 0; i < nloose; ++i) { Line l = mkline("world", "loose"); l.set("name", quoteToken(pick())).set("cseed", hex64(r.next())).set("len", r.below(300)); p.world.push_back(l); }
		size_t nsub = static_cast<size_t>(r.below(3));
		for (size_t i = 0; i < nsub; ++i) { Line l = mkline("world", "subdir"); l.set("name", quoteToken(r.chance(1, 2) ? (r.chance(1, 2) ? "zz.vol" : "zq.clm") : pick())); p.world.push_back(l); }
		// one run in ten: foreign VOL archives whose STORED names carry a leading "./"; such worlds exercise the archive lookups only
		// (the listing clauses speak of names "equal ignoring case", which says nothing about a stored "./")
		bool dotslash = r.chance(1, 10);
		size_t nar = static_cast<size_t>(dotslash ? r.range(1, 4) : r.below(thorough ? 6 : 5));
		for (size_t k = 0; k < nar; ++k) {
			bool clm = r.chance(1, 3);
			Line a = mkline("world", "archive");
			a.set("k", k).set("kind", clm ? "clm" : "vol").set("file", quoteToken(randName(r, 1, 5, false) + (clm ? ".clm" : ".vol"))).set("spare", r.chance(1, 3) ? r.below(3) : 0);
			p.world.push_back(a);
			if (!clm && r.chance(1, 3)) { size_t ns = static_cast<size_t>(r.range(1, 2)); for (size_t i = 0; i < ns; ++i) { Line sp = mkline("world", "asurplus"); sp.set("ar", k).set("name", quoteToken(pick())); p.world.push_back(sp); } }
			size_t nm = static_cast<size_t>(r.chance(1, 20) ? r.range(17, 30) : r.below(6));
			for (size_t i = 0; i < nm; ++i) { Line m = mkline("world", "amember"); m.set("ar", k).set("name", quoteToken(r.chance(4, 5) ? pick() : randName(r, 1, 8, false))).set("cseed", hex64(r.next())).set("len", r.below(300)); if (dotslash && r.chance(1, 2)) m.set("dotslash", 1); p.world.push_back(m); }
		}
		size_t nops = static_cast<size_t>(r.range(6, thorough ? 40 : 24));
		for (size_t i = 0; i < nops; ++i) {
			Line op;
			uint64_t c = r.below(100);
			std::string q = r.chance(1, 8) ? randName(r, 1, 6, false) : caseVariant(pool[r.below(pool.size())], r.below(6));
			if (dotslash) c = 83 + c % 17; // archives / arcq only
			else if (i >= 2 && r.chance(1, 10)) {
				// the directory changes while the manager lives: a loose file appears (or is rewritten) or vanishes; "if one exists" is
				// decided by the library at each call (it probes the disk every time), so the answer must follow the directory, not the past
				std::string nm = pool[r.below(pool.size())];
				std::string low = lower(nm);
				bool archiveLike = low.size() >= 4 && (low.rfind(".vol") == low.size() - 4 || low.rfind(".clm") == low.size() - 4);
				if (!archiveLike) {
					op = mkline("op", r.chance(2, 3) ? "appear" : "vanish");
					op.set("q", quoteToken(nm)).set("cseed", hex64(r.next())).set("len", r.below(300));
					p.ops.push_back(op);
					// ask for it right away as well
					Line g = mkline("op", "get"); g.set("q", quoteToken(caseVariant(nm, 0))).set("arch", 1); p.ops.push_back(g);
					continue;
				}
			}
			if (c < 40) {
				// one query in eight carries a directory part (an existing sub-directory's name, or one that does not exist): a name in
				// another directory is another name
				if (r.chance(1, 8)) q = (r.chance(1, 2) ? std::string("nosuch") : pool[r.below(pool.size())]) + "/" + q;
				op = mkline("op", "get"); op.set("q", quoteToken(q)).set("arch", r.chance(3, 4) ? 1 : 0);
				// fault: an allocation fails inside this call (its own answer is then not judged; every later answer is)
				if (r.chance(1, 10)) op.set("allocfail", 1 + r.below(20));
			}
			else if (c < 45) { op = mkline("op", "get"); op.set("q", quoteToken(r.chance(1, 2) ? "/" + q : "/abs/" + q)).set("arch", 1); }
			else if (c < 57) { op = mkline("op", "type"); op.set("ext", quoteToken(std::string(EXT[r.below(4)]))).set("arch", r.chance(3, 4) ? 1 : 0); }
			else if (c < 69) { std::string nm = pool[r.below(pool.size())]; size_t a = r.below(nm.size()), b = 1 + r.below(3); std::string pat; for (char ch : nm.substr(a, b)) if (isalpha(static_cast<unsigned char>(ch))) pat.push_back(ch); if (pat.empty()) pat = "a"; op = mkline("op", "pattern"); op.set("pat", pat).set("arch", r.chance(3, 4) ? 1 : 0); }
			else if (c < 79) { op = mkline("op", "containing"); op.set("q", quoteToken(q)); }
			else if (c < 83) op = mkline("op", "archives");
			else { op = mkline("op", "arcq"); op.set("ar", r.below(8)).set("q", quoteToken(q)).set("i", r.chance(1, 6) ? std::string(r.chance(1, 2) ? "0xffffffffffffffff" : "0x100000000") : "~" + std::to_string(r.below(50))); }
			p.ops.push_back(op);
		}
		return p;
	}

	void execute(const Plan& plan, RunCtx& ctx) override {
		Layout L = buildLayout(plan);
		materialise(L);
		std::unique_ptr<ResourceManager> rm;
		std::string what;
		Out o = callLib(plan, [&] { rm = std::make_unique<ResourceManager>(kDir); }, &what);
		if (o != OkOut) ctx.fail("C17.loose-first", "constructing the ResourceManager over a directory of valid archives failed: " + what);
		std::vector<std::unique_ptr<Archive::ArchiveFile>> direct; // harness-opened archive objects for the per-archive clauses
		for (auto& a : L.archives) {
			std::string path = std::string(kDir) + "/" + a.file;
			std::unique_ptr<Archive::ArchiveFile> ar;
			o = callLib(plan, [&] { if (a.clm) ar = std::make_unique<Archive::ClmFile>(path); else ar = std::make_unique<Archive::VolFile>(path); }, &what);
			if (o != OkOut) ctx.fail("C17.lookup-agree", "opening reference-encoded archive " + a.file + " failed: " + what);
			direct.push_back(std::move(ar));
		}
		auto isLooseFile = [&](const std::string& q) { std::string p = std::string(kDir) + "/" + q; return disk::exists(p) && !disk::isDir(p); };
		auto matchName = [&](const std::string& member, const std::string& q) { std::string a = lower(member), b = lower(q); if (a.rfind("./", 0) == 0) a = a.substr(2); if (b.rfind("./", 0) == 0) b = b.substr(2); return a == b; };
		bool any = false;
		for (size_t oi = 0; oi < plan.ops.size(); ++oi) {
			const Line& op = plan.ops[oi];
			ctx.setOp(oi);
			ctx.schedNote(op.verb);
			const std::string& v = op.verb;
			if (v == "appear" || v == "vanish") {
				std::string q = unquoteToken(op.get("q"));
				std::string path = std::string(kDir) + "/" + q;
				if (q.empty() || q.find('/') != std::string::npos || disk::isDir(path)) continue;
				if (v == "appear") {
					// exact spelling only: on this case-sensitive file system another spelling would be another file
					std::vector<uint8_t> bytes = prngBytes(op.u("cseed", 1), static_cast<size_t>(op.u("len", 0)));
					disk::put(path, bytes);
					L.loose[q] = bytes;
					ctx.count("probe.loose_file_appeared_during_lifetime");
				} else if (L.loose.count(q)) {
					::unlink(path.c_str());
					L.loose.erase(q);
					ctx.count("probe.loose_file_vanished_during_lifetime");
				}
				ctx.event(v);
				continue;
			}
			if (v == "get") {
				std::string q = unquoteToken(op.get("q"));
				bool arch = op.u("arch", 1) != 0;
				std::unique_ptr<Stream::BidirectionalReader> s;
				std::vector<uint8_t> got;
				bool null = false;
				uint64_t weirdLen = 0;
				uint64_t injectedBefore = g_alloc.injectedFailures;
				g_alloc.failCountdown = op.u("allocfail", 0);
				o = callLib(plan, [&] {
					s = (arch && (oi & 1)) ? rm->GetResourceStream(q) : rm->GetResourceStream(q, arch); // default argument = archives allowed
					if (!s) { null = true; return; }
					uint64_t len = s->Length();
					if (len > (1u << 20)) { weirdLen = len; return; }
					got.resize(static_cast<size_t>(len));
					s->Read(got.data(), got.size());
				}, &what);
				g_alloc.failCountdown = 0;
				{ Armed a; s.reset(); }
				if (g_alloc.injectedFailures != injectedBefore) { ctx.count("fault.alloc_fail"); ctx.event("get under allocation failure"); if (o == ErrOther) ctx.fail("C17.loose-first", "non-std exception under an allocation failure"); continue; }
				std::string desc = "GetResourceStream('" + q + "', accessArchives=" + (arch ? "true" : "false") + ")";
				if (!q.empty() && q[0] == '/') {
					if (o == OkOut) ctx.fail("C17.rooted-refused", desc + ": a rooted path must be refused");
					ctx.count("probe.rooted_refused");
					ctx.event("get rooted");
					continue;
				}
				if (o == ErrOther) ctx.fail("C17.loose-first", desc + ": non-std exception");
				if (weirdLen && (isLooseFile(q))) ctx.fail("C17.loose-first", desc + ": returned stream reports length " + std::to_string(weirdLen));
				std::vector<const Member*> candidates;
				for (auto& a : L.archives) for (auto& m : a.members) if (matchName(m.name, q)) candidates.push_back(&m);
				if (isLooseFile(q)) {
					std::string key = q.rfind("./", 0) == 0 ? q.substr(2) : q;
					if (o != OkOut || null) ctx.fail("C17.loose-first", desc + ": a loose file of that name exists but " + (null ? "nothing was returned" : "the call failed: " + what));
					if (got != L.loose[key]) ctx.fail("C17.loose-first", desc + ": returned bytes are not the loose file's bytes" + (candidates.empty() ? "" : " (an archive member of the same name exists)"));
					if (!candidates.empty()) ctx.count("probe.loose_shadows_member");
				} else if (arch && !candidates.empty()) {
					if (o != OkOut || null) ctx.fail("C17.loose-first", desc + ": no loose file, but a loaded archive holds a member of that name; " + (null ? "nothing was returned" : "the call failed: " + what));
					bool okAny = false;
					for (auto* m : candidates) if (got == m->stored) okAny = true;
					if (!okAny) ctx.fail("C17.loose-first", desc + ": returned bytes are not those of any archive member with that name");
					if (candidates.size() >= 2) ctx.count("probe.member_in_two_archives");
					ctx.count("probe.resolved_through_archive");
				} else {
					if (o != OkOut) ctx.fail(arch ? "C17.loose-first" : "C17.no-archives", desc + ": nothing of that name exists; expected an empty result, got an error: " + what);
					if (!null) ctx.fail(arch ? "C17.loose-first" : "C17.no-archives", desc + ": " + (candidates.empty() ? std::string("nothing of that name exists as a loose file or archive member") : std::string("archive access is disabled and no loose file of that name exists")) + ", yet a stream of " + std::to_string(weirdLen ? weirdLen : got.size()) + " bytes was returned" + (disk::isDir(std::string(kDir) + "/" + q) ? " (the name is a sub-directory)" : ""));
					if (!arch && !candidates.empty()) ctx.count("probe.archives_disabled_hides_member");
					if (disk::isDir(std::string(kDir) + "/" + q)) ctx.count("probe.query_names_directory");
				}
				any = true;
				ctx.event("get " + std::to_string(got.size()) + (null ? " null" : ""));
			} else if (v == "type" || v == "pattern") {
				bool arch = op.u("arch", 1) != 0;
				std::vector<std::string> got;
				std::string ext = unquoteToken(op.get("ext", ".txt")), pat = op.get("pat", "a");
				o = callLib(plan, [&] { if (arch && (oi & 1)) got = v == "type" ? rm->GetAllFilenamesOfType(ext) : rm->GetAllFilenames(pat); else got = v == "type" ? rm->GetAllFilenamesOfType(ext, arch) : rm->GetAllFilenames(pat, arch); }, &what);
				std::string desc = v == "type" ? "GetAllFilenamesOfType('" + ext + "')" : "GetAllFilenames('" + pat + "')";
				const char* cl = v == "type" ? "C17.listing-type" : "C17.listing-pattern";
				if (o != OkOut) ctx.fail(cl, desc + " failed: " + what);
				std::vector<std::string> want; // lower-cased multiset
				std::set<std::string> listedLower;
				for (auto& f : L.loose) {
					bool m = v == "type" ? extOf(f.first) == ext : containsNoCase(f.first, pat);
					if (m) { want.push_back(lower(f.first)); listedLower.insert(lower(f.first)); }
				}
				if (arch) {
					for (auto& a : L.archives) for (auto& m : a.members) {
						if (v == "type") {
							if (lower(extOf(m.name)) != lower(ext)) continue;
							if (listedLower.count(lower(m.name))) continue; // suppressed: a name already listed equals it ignoring case
							listedLower.insert(lower(m.name));
							want.push_back(lower(m.name));
						} else if (containsNoCase(m.name, pat)) want.push_back(lower(m.name));
					}
				}
				std::vector<std::string> gotLower;
				for (auto& g : got) {
					gotLower.push_back(lower(g));
					bool real = L.loose.count(g) > 0;
					for (auto& a : L.archives) for (auto& m : a.members) if (m.name == g) real = true;
					if (!real) ctx.fail(cl, desc + ": listed name '" + g + "' is neither a loose file nor an archive member");
				}
				std::sort(want.begin(), want.end());
				std::sort(gotLower.begin(), gotLower.end());
				// a loose file whose extension matches only in another letter case: the property does not say whether it "matches"
				bool ambiguous = false;
				if (v == "type") for (auto& f : L.loose) if (extOf(f.first) != ext && lower(extOf(f.first)) == lower(ext)) ambiguous = true;
				if (ambiguous) ctx.count("probe.type_listing_ambiguous_case_skipped");
				if (!ambiguous && want != gotLower) {
					std::string w, g;
					for (auto& x : want) w += " " + x;
					for (auto& x : gotLower) g += " " + x;
					ctx.fail(cl, desc + " accessArchives=" + (arch ? "true" : "false") + " listed {" + g + " } but exactly {" + w + " } match (compared ignoring case and order)");
				}
				if (!want.empty()) any = true;
				ctx.event(v + " " + std::to_string(got.size()));
			} else if (v == "containing") {
				std::string q = unquoteToken(op.get("q"));
				std::string got;
				o = callLib(plan, [&] { got = rm->FindContainingArchivePath(q); }, &what);
				if (o != OkOut) ctx.fail("C17.containing-archive", "FindContainingArchivePath('" + q + "') failed: " + what);
				bool some = false, okGot = got.empty();
				for (auto& a : L.archives) for (auto& m : a.members) if (matchName(m.name, q)) { some = true; if (got == std::string(kDir) + "/" + a.file) okGot = true; }
				if (some && got.empty()) ctx.fail("C17.containing-archive", "FindContainingArchivePath('" + q + "') reports no archive although a loaded archive contains that name");
				if (!got.empty() && (!okGot || !some)) ctx.fail("C17.containing-archive", "FindContainingArchivePath('" + q + "') reports '" + got + "', which does not contain that name");
				ctx.event("containing " + got);
			} else if (v == "archives") {
				std::vector<std::string> got;
				o = callLib(plan, [&] { got = rm->GetArchiveFilenames(); }, &what);
				std::vector<std::string> want;
				for (auto& a : L.archives) want.push_back(std::string(kDir) + "/" + a.file);
				std::sort(want.begin(), want.end());
				std::sort(got.begin(), got.end());
				if (o != OkOut || want != got) ctx.fail("C17.containing-archive", "GetArchiveFilenames lists " + std::to_string(got.size()) + " archives; the directory holds " + std::to_string(want.size()) + " regular *.vol / *.clm files");
				if (L.archives.size() >= 2) ctx.count("probe.two_or_more_archives_loaded");
				ctx.event("archives " + std::to_string(got.size()));
			} else if (v == "arcq") {
				if (direct.empty()) { ctx.event("skip"); continue; }
				size_t ai = static_cast<size_t>(op.u("ar", 0) % direct.size());
				Archive::ArchiveFile& ar = *direct[ai];
				const Ar& model = L.archives[ai];
				std::string q = unquoteToken(op.get("q"));
				bool has = false;
				size_t idx = SIZE_MAX;
				Out oc = callLib(plan, [&] { has = ar.Contains(q); }, &what);
				if (oc != OkOut) ctx.fail("C17.lookup-agree", "Contains('" + q + "') failed: " + what);
				Out oi2 = callLib(plan, [&] { idx = ar.GetIndex(q); }, &what);
				if (oi2 == ErrOther) ctx.fail("C17.lookup-agree", "GetIndex threw a non-std exception");
				size_t want = SIZE_MAX;
				for (size_t i = 0; i < model.members.size(); ++i) if (matchName(model.members[i].name, q)) want = i;
				if (has != (oi2 == OkOut)) ctx.fail("C17.lookup-agree", "Contains('" + q + "') = " + std::to_string(has) + " but GetIndex " + (oi2 == OkOut ? "succeeds" : "fails"));
				if ((want != SIZE_MAX) != has) ctx.fail("C17.lookup-agree", std::string("archive ") + model.file + (want != SIZE_MAX ? " holds" : " does not hold") + " a member equal to '" + q + "' ignoring case and a leading './', but Contains says " + std::to_string(has));
				if (has && idx != want) ctx.fail("C17.lookup-agree", "GetIndex('" + q + "') = " + std::to_string(idx) + " but that member is number " + std::to_string(want));
				// GetIndex(GetName(i)) = i (archives from the encoder are duplicate-free); out-of-range refused by every per-member call
				std::string tok = op.get("i", "~0");
				size_t n = model.members.size();
				size_t i = tok[0] == '~' ? static_cast<size_t>(parseU64(tok.substr(1)) % (n + 2)) : static_cast<size_t>(parseU64(tok));
				std::string nm;
				Out on = callLib(plan, [&] { nm = ar.GetName(i); }, &what);
				Out os = callLib(plan, [&] { (void)ar.GetSize(i); }, &what);
				Out oo = callLib(plan, [&] { auto s = ar.OpenStream(i); }, &what);
				Out oe = callLib(plan, [&] { ar.ExtractFile(i, "_x/e.bin"); }, &what);
				Out ok = OkOut;
				if (auto* vf = dynamic_cast<Archive::VolFile*>(&ar)) ok = callLib(plan, [&] { (void)vf->GetCompressionCode(i); }, &what);
				if (i >= n) {
					if (on == OkOut || os == OkOut || oo == OkOut || oe == OkOut || (ok == OkOut && dynamic_cast<Archive::VolFile*>(&ar))) ctx.fail("C17.lookup-agree", "index " + std::to_string(i) + " is out of range (" + std::to_string(n) + " members) but a per-member call accepted it");
					ctx.count("probe.out_of_range_index_refused");
				} else {
					if (on != OkOut || os != OkOut || oo != OkOut || oe != OkOut) ctx.fail("C17.lookup-agree", "per-member call on in-range index " + std::to_string(i) + " failed: " + what);
					if (nm != model.members[i].name) ctx.fail("C17.lookup-agree", "GetName(" + std::to_string(i) + ") = '" + nm + "', expected '" + model.members[i].name + "'");
					size_t back = SIZE_MAX;
					Out ob = callLib(plan, [&] { back = ar.GetIndex(nm); }, &what);
					if (ob != OkOut || back != i) ctx.fail("C17.lookup-agree", "GetIndex(GetName(" + std::to_string(i) + ")) = " + std::to_string(back));
				}
				any = true;
				ctx.event("arcq " + std::to_string(idx));
			} else throw std::runtime_error("unknown op " + v);
		}
		{ Armed a; rm.reset(); direct.clear(); }
		ctx.nontrivial = any;
		ctx.count("library_calls", plan.ops.size());
	}
	std::string signatureDetail(const Plan& p, const Violation& v) override { return v.opIndex < p.ops.size() ? p.ops[v.opIndex].verb : ""; }
};
FamilyRegistrar regResourceLayout(new ResourceLayout);

} // namespace
} // namespace sim

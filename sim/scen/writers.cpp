// Families for C14: "writer-actors" (fixed-buffer writer with guard zones, growing writer, typed
// writes and their inverse reads, size-prefix refusal), "copy-matrix" (Writer::Write<Chunk>(Reader&)
// over chunk size x source length x start position x reader backend x destination) and
// "filewriter-matrix" (every open-flag subset x {file exists, does not exist}, durable bytes after close).
#include "../kernel/core.h"
#include "../seams/env.h"
#include "../seams/simstream.h"
#include "Stream/DynamicMemoryWriter.h"
#include "Stream/FileReader.h"
#include "Stream/FileWriter.h"
#include "Stream/MemoryReader.h"
#include "Stream/MemoryWriter.h"
#include "Stream/SliceReader.h"
#include <cstring>
#include <memory>
#include <fcntl.h>
#include <sys/stat.h>
#include <unistd.h>
#include <stdexcept>

#if defined(__has_feature)
#if __has_feature(address_sanitizer)
#include <sanitizer/asan_interface.h>
#define SIM_POISON(p, n) __asan_poison_memory_region((p), (n))
#define SIM_UNPOISON(p, n) __asan_unpoison_memory_region((p), (n))
#endif
#endif
#ifndef SIM_POISON
#define SIM_POISON(p, n) ((void)0)
#define SIM_UNPOISON(p, n) ((void)0)
#endif

using namespace OP2Utility;

namespace sim {
namespace {

typedef unsigned __int128 u128;

uint64_t resolveArg(const std::string& tok, uint64_t m, uint64_t pos) {
	if (tok.empty()) return 0;
	if (tok[0] == '~') return m ? parseU64(tok.substr(1)) % m : 0;
	if (tok[0] == 'W') return (0 - pos) + parseU64(tok.substr(2));
	return parseU64(tok);
}

// A container whose own size() has a narrow unsigned type (the size-prefixed write is a template over the container too).
template <class S> struct NarrowVec {
	typedef uint8_t value_type;
	std::vector<uint8_t> v;
	S size() const { return static_cast<S>(v.size()); }
	const uint8_t* data() const { return v.data(); }
};

std::string argTok(Rng& r, int boundaryPercent) {
	if (r.chance(static_cast<uint64_t>(boundaryPercent), 100)) {
		static const char* B[] = {"0x7fffffff", "0x80000000", "0xffffffff", "0x100000000", "0x7fffffffffffffff", "0x8000000000000000", "0xffffffffffffffff", "0xfffffffffffffffe", "W+0", "W+1", "W+2", "W+7"};
		return B[r.below(sizeof B / sizeof B[0])];
	}
	switch (r.below(5)) {
	case 0: return "~0";
	case 1: return "~1";
	case 2: return "~" + std::to_string(r.below(8));
	default: return "~" + std::to_string(r.below(100000));
	}
}

enum Out { OkOut, ErrStd, ErrOther };
template <class F> Out callLib(const Plan& plan, F&& f, std::string* what = nullptr) {
	scribbleStack(static_cast<unsigned char>(plan.envu("stack", 0x5a)));
	Armed arm;
	try { f(); return OkOut; }
	catch (const std::exception& e) { if (what) *what = e.what(); return ErrStd; }
	catch (...) { return ErrOther; }
}

// ---------------------------------------------------------------------------------------------
struct WriterActors : Family {
	std::string name() const override { return "writer-actors"; }

	Plan generate(const std::string&, Rng& r, bool thorough) override {
		Plan p;
		bool dyn = r.chance(1, 2);
		p.setenv("writer", dyn ? "dyn" : "mem");
		p.setenv("heap", r.below(256));
		p.setenv("stack", r.below(256));
		p.setenv("memcap", 8 << 20);
		uint64_t len = r.chance(1, 6) ? r.below(3) : r.below(65);
		Line b = mkline("world", "buf");
		b.set("len", len).set("prealloc", r.chance(1, 3) ? r.below(100) : 0);
		p.world.push_back(b);
		size_t nops = static_cast<size_t>(r.range(5, thorough ? 60 : 35));
		for (size_t i = 0; i < nops; ++i) {
			Line op;
			uint64_t k = r.below(100);
			if (k < 30) { op = mkline("op", "write"); op.set("n", dyn ? "~" + std::to_string(r.below(r.chance(1, 10) ? 5000 : 40)) : argTok(r, 20)).set("cseed", hex64(r.next())); }
			else if (k < 42) { op = mkline("op", "seek"); op.set("p", dyn ? (r.chance(1, 8) ? argTok(r, 100) : "~" + std::to_string(r.below(200))) : argTok(r, 25)); }
			else if (k < 54) { op = mkline("op", "fwd"); op.set("d", dyn ? (r.chance(1, 8) ? argTok(r, 100) : "~" + std::to_string(r.below(60))) : argTok(r, 25)); }
			else if (k < 66) { op = mkline("op", "back"); op.set("d", argTok(r, 25)); }
			else if (k < 69) op = mkline("op", "begin");
			else if (k < 72) op = mkline("op", "end");
			else if (k < 92) {
				op = mkline("op", "twrite");
				static const char* W[] = {"u8", "u16", "u32", "u64", "vec16", "str", "pfx", "pfx", "pfxlimit"};
				std::string w = W[r.below(9)];
				op.set("what", w).set("v", hex64(r.next()));
				if (w == "vec16" || w == "str") op.set("n", r.below(40));
				if (w == "pfx") {
					static const char* ST[] = {"u8", "i8", "u16", "i16", "u32", "i32", "u64", "i64"};
					op.set("st", ST[r.below(8)]).set("elem", r.pick(std::vector<std::string>{"1", "4", "s"})).set("n", r.below(50));
				}
				if (w == "pfxlimit") {
					// containers just below / at / above what the prefix type can hold
					static const char* ST[] = {"u8", "i8", "u16", "i16"};
					std::string st = ST[r.below(4)];
					uint64_t lim = st == "u8" ? 255 : st == "i8" ? 127 : st == "u16" ? 65535 : 32767;
					op.set("st", st).set("elem", r.chance(1, 2) ? "1" : "s").set("n", lim + r.below(3) - (r.chance(1, 2) ? 1 : 0));
				}
			}
			else op = mkline("op", "readback");
			p.ops.push_back(op);
		}
		p.ops.push_back(mkline("op", "readback"));
		return p;
	}

	struct Item { std::string what, st, elem; uint64_t v, n; };

	void execute(const Plan& plan, RunCtx& ctx) override {
		bool dyn = plan.envs("writer", "mem") == "dyn";
		uint64_t N = 0, prealloc = 0;
		for (auto& l : plan.world) if (l.verb == "buf") { N = l.u("len"); prealloc = l.u("prealloc"); }
		if (N > 4096) throw std::runtime_error("buf too large");
		const size_t G = 64;
		std::vector<uint8_t> model; // mem: N bytes ; dyn: content
		uint64_t pos = 0;
		std::unique_ptr<unsigned char[]> block;
		std::unique_ptr<Stream::MemoryWriter> mw;
		std::unique_ptr<Stream::DynamicMemoryWriter> dw;
		Stream::BidirectionalWriter* w;
		if (!dyn) {
			block.reset(new unsigned char[G + N + G]);
			for (size_t i = 0; i < G; ++i) { block[i] = static_cast<unsigned char>(0xC0 + (i & 15)); block[G + N + i] = static_cast<unsigned char>(0xD0 + (i & 15)); }
			memset(block.get() + G, 0xCD, N);
			model.assign(N, 0xCD);
			mw = std::make_unique<Stream::MemoryWriter>(block.get() + G, N);
			w = mw.get();
		} else {
			Armed arm;
			dw = prealloc ? std::make_unique<Stream::DynamicMemoryWriter>(prealloc) : std::make_unique<Stream::DynamicMemoryWriter>();
			w = dw.get();
		}
		std::vector<Item> items;   // typed writes since the stream was last cut, for the inverse check
		bool itemsValid = true;    // false once a seek/raw write disturbed the typed sequence
		uint64_t itemsStart = 0;
		bool changed = false;

		auto guardsIntact = [&](const std::string& when) {
			if (dyn) return;
			SIM_UNPOISON(block.get(), G);
			SIM_UNPOISON(block.get() + G + N, G);
			for (size_t i = 0; i < G; ++i) {
				if (block[i] != static_cast<unsigned char>(0xC0 + (i & 15)) || block[G + N + i] != static_cast<unsigned char>(0xD0 + (i & 15)))
					ctx.fail("C14.guard-intact", when + ": a byte outside the writer's buffer was modified (guard offset " + std::to_string(i) + ")");
			}
		};
		auto poison = [&]() { if (!dyn) { SIM_POISON(block.get(), G); SIM_POISON(block.get() + G + N, G); } };
		auto unpoison = [&]() { if (!dyn) { SIM_UNPOISON(block.get(), G); SIM_UNPOISON(block.get() + G + N, G); } };
		auto lib = [&](auto&& f, std::string* what) { poison(); Out o = callLib(plan, f, what); unpoison(); return o; };

		auto checkState = [&](const std::string& desc, bool refused) {
			uint64_t p, l;
			{ Armed arm; p = w->Position(); l = w->Length(); }
			if (!dyn) {
				guardsIntact(desc);
				if (l != N) ctx.fail("C14.mem-content", desc + ": length " + std::to_string(l) + ", buffer is " + std::to_string(N));
				if (p != pos) ctx.fail(refused ? "C14.mem-refuse-atomic" : "C14.mem-content", desc + ": position afterwards " + std::to_string(p) + ", expected " + std::to_string(pos));
				if (memcmp(block.get() + G, model.data(), N) != 0) ctx.fail(refused ? "C14.mem-refuse-atomic" : "C14.mem-content", desc + ": buffer content differs from what the history implies");
			} else {
				if (l != model.size() || p != model.size()) ctx.fail("C14.dyn-content", desc + ": length/position " + std::to_string(l) + "/" + std::to_string(p) + ", history implies " + std::to_string(model.size()));
			}
		};
		auto readBackAll = [&](const std::string& desc) {
			if (!dyn) return;
			std::vector<uint8_t> got(model.size());
			std::string what;
			Out o = callLib(plan, [&] { auto rd = dw->GetReader(); if (rd.Length() != got.size()) throw std::runtime_error("reader length " + std::to_string(rd.Length())); rd.Read(got.data(), got.size()); }, &what);
			if (o != OkOut) ctx.fail("C14.dyn-content", desc + ": reading the written data back failed: " + what);
			if (got != model) {
				size_t i = 0;
				while (i < got.size() && got[i] == model[i]) ++i;
				ctx.fail("C14.dyn-content", desc + ": read-back content differs from what the history implies at offset " + std::to_string(i));
			}
		};

		for (size_t i = 0; i < plan.ops.size(); ++i) {
			const Line& op = plan.ops[i];
			ctx.setOp(i);
			ctx.schedNote(op.verb);
			const std::string& v = op.verb;
			std::string what;
			if (v == "write") {
				uint64_t room = dyn ? 5000 : N - pos;
				uint64_t n = resolveArg(op.get("n", "~0"), room + 2, pos);
				bool ok = dyn ? true : n <= N - pos;
				if (dyn && n > 100000) n = 100000;
				size_t bn = static_cast<size_t>(ok ? n : std::min<uint64_t>(n, 16));
				std::vector<uint8_t> data = prngBytes(op.u("cseed"), bn);
				std::unique_ptr<char[]> src(new char[bn]);
				memcpy(src.get(), data.data(), bn);
				Out o = lib([&] { w->Write(src.get(), static_cast<size_t>(n)); }, &what);
				std::string desc = "write of " + std::to_string(n) + " bytes at " + std::to_string(pos) + "/" + std::to_string(dyn ? model.size() : N);
				if (o == ErrOther) ctx.fail("C14.mem-content", desc + ": threw a non-std exception");
				if (ok && o != OkOut) ctx.fail(dyn ? "C14.dyn-content" : "C14.mem-content", desc + ": fitting write refused: " + what);
				if (!ok && o == OkOut) ctx.fail("C14.mem-refuse-atomic", desc + ": write that leaves the buffer succeeded");
				if (ok) {
					if (dyn) { model.insert(model.end(), data.begin(), data.end()); pos = model.size(); }
					else { memcpy(model.data() + pos, data.data(), bn); pos += n; }
					if (n) changed = true;
				} else ctx.count("probe.mem_write_refused");
				itemsValid = false;
				checkState(desc, !ok);
				ctx.event("write " + std::to_string(n) + (ok ? " ok" : " refused"));
			} else if (v == "seek" || v == "fwd" || v == "back" || v == "begin" || v == "end") {
				uint64_t cur = dyn ? model.size() : pos;
				uint64_t lim = dyn ? model.size() : N;
				uint64_t arg = 0, target = 0;
				bool ok = true, either = false;
				if (v == "seek") { arg = resolveArg(op.get("p", "~0"), lim + 2, cur); target = arg; ok = dyn ? true : arg <= N; }
				else if (v == "fwd") { arg = resolveArg(op.get("d", "~0"), (lim - cur) + 2, cur); ok = dyn ? true : static_cast<u128>(cur) + arg <= N; target = cur + arg; }
				else if (v == "back") { arg = resolveArg(op.get("d", "~0"), cur + 2, cur); ok = arg <= cur; target = cur - arg; }
				else if (v == "begin") { target = 0; }
				else { target = dyn ? model.size() : N; }
				if (dyn && ok && (v == "seek" || v == "fwd")) {
					// growth: small must succeed, beyond the simulated memory must fail, in between is the machine's call
					u128 t = v == "seek" ? static_cast<u128>(arg) : static_cast<u128>(cur) + arg;
					if (t > (static_cast<u128>(1) << 20)) { either = t <= plan.envu("memcap", 8 << 20); ok = false; }
				}
				Out o = lib([&] {
					if (v == "seek") w->Seek(arg);
					else if (v == "fwd") w->SeekForward(arg);
					else if (v == "back") w->SeekBackward(arg);
					else if (v == "begin") w->SeekBeginning();
					else w->SeekEnd();
				}, &what);
				std::string desc = v + " " + std::to_string(arg) + " at " + std::to_string(cur) + "/" + std::to_string(lim);
				if (o == ErrOther) ctx.fail("C14.mem-content", desc + ": threw a non-std exception");
				if (either) { if (o == OkOut) ok = true; }
				else {
					if (ok && o != OkOut) ctx.fail(dyn ? "C14.dyn-content" : "C14.mem-content", desc + ": in-range seek refused: " + what);
					if (!ok && o == OkOut) ctx.fail(dyn ? "C14.dyn-content" : "C14.mem-refuse-atomic", desc + ": seek that leaves the stream succeeded");
				}
				if (ok) {
					if (dyn) { if (target != model.size()) changed = true; model.resize(static_cast<size_t>(target), 0); pos = model.size(); }
					else { if (target != pos) changed = true; pos = target; }
				} else {
					ctx.count("probe.seek_refused");
					if (arg >= (1ull << 31)) ctx.count("probe.wrap_class_arg");
				}
				if (v != "end") itemsValid = false;
				checkState(desc, !ok);
				ctx.event(v + " " + std::to_string(arg) + (ok ? " ok" : " refused"));
			} else if (v == "twrite") {
				if (!dyn) {
					// typed write into the fixed buffer: fits or is refused atomically
					uint64_t val = op.u("v");
					std::string wt = op.get("what");
					size_t sz = wt == "u8" ? 1 : wt == "u16" ? 2 : wt == "u32" ? 4 : 8;
					bool ok = sz <= N - pos;
					Out o = lib([&] {
						if (sz == 1) w->Write(static_cast<uint8_t>(val)); else if (sz == 2) w->Write(static_cast<uint16_t>(val));
						else if (sz == 4) w->Write(static_cast<uint32_t>(val)); else w->Write(static_cast<uint64_t>(val));
					}, &what);
					std::string desc = "typed write of " + std::to_string(sz) + " bytes at " + std::to_string(pos) + "/" + std::to_string(N);
					if (ok && o != OkOut) ctx.fail("C14.mem-content", desc + ": refused: " + what);
					if (!ok && o == OkOut) ctx.fail("C14.mem-refuse-atomic", desc + ": succeeded");
					if (ok) { for (size_t b = 0; b < sz; ++b) model[pos + b] = static_cast<uint8_t>(val >> (8 * b)); pos += sz; changed = true; }
					checkState(desc, !ok);
					ctx.event("twrite mem " + std::to_string(sz));
					continue;
				}
				if (!itemsValid) { items.clear(); itemsStart = model.size(); itemsValid = true; }
				Item it{op.get("what"), op.get("st", "u8"), op.get("elem", "1"), op.u("v"), op.u("n", 0)};
				std::vector<uint8_t> enc;
				bool ok = true;
				auto le = [&](uint64_t x, size_t sz) { for (size_t b = 0; b < sz; ++b) enc.push_back(static_cast<uint8_t>(x >> (8 * b))); };
				Out o;
				std::string desc = "typed write " + it.what;
				if (it.what == "u8" || it.what == "u16" || it.what == "u32" || it.what == "u64") {
					size_t sz = it.what == "u8" ? 1 : it.what == "u16" ? 2 : it.what == "u32" ? 4 : 8;
					le(it.v, sz);
					o = lib([&] {
						if (sz == 1) w->Write(static_cast<uint8_t>(it.v)); else if (sz == 2) w->Write(static_cast<uint16_t>(it.v));
						else if (sz == 4) w->Write(static_cast<uint32_t>(it.v)); else w->Write(static_cast<uint64_t>(it.v));
					}, &what);
				} else if (it.what == "vec16") {
					std::vector<uint16_t> c(static_cast<size_t>(it.n));
					auto d = prngBytes(it.v, c.size() * 2);
					memcpy(c.data(), d.data(), d.size());
					enc = d;
					o = lib([&] { w->Write(c); }, &what);
				} else if (it.what == "str") {
					auto d = prngBytes(it.v, static_cast<size_t>(it.n));
					std::string s(d.begin(), d.end());
					enc = d;
					o = lib([&] { w->Write(s); }, &what);
				} else { // pfx / pfxlimit
					size_t es = it.elem == "4" ? 4 : 1;
					size_t ps = (it.st == "u8" || it.st == "i8") ? 1 : (it.st == "u16" || it.st == "i16") ? 2 : (it.st == "u32" || it.st == "i32") ? 4 : 8;
					uint64_t maxv = it.st == "u8" ? 255 : it.st == "i8" ? 127 : it.st == "u16" ? 65535 : it.st == "i16" ? 32767 : it.st == "u32" ? 0xffffffffull : it.st == "i32" ? 0x7fffffffull : it.st == "u64" ? ~0ull : 0x7fffffffffffffffull;
					ok = it.n <= maxv;
					auto d = prngBytes(it.v, static_cast<size_t>(it.n) * es);
					if (ok) { le(it.n, ps); enc.insert(enc.end(), d.begin(), d.end()); }
					desc += " " + it.st + " prefix, " + std::to_string(it.n) + " elements";
					auto doWrite = [&](auto& cont) {
						if (it.st == "u8") w->Write<uint8_t>(cont); else if (it.st == "i8") w->Write<int8_t>(cont);
						else if (it.st == "u16") w->Write<uint16_t>(cont); else if (it.st == "i16") w->Write<int16_t>(cont);
						else if (it.st == "u32") w->Write<uint32_t>(cont); else if (it.st == "i32") w->Write<int32_t>(cont);
						else if (it.st == "u64") w->Write<uint64_t>(cont); else w->Write<int64_t>(cont);
					};
					if (it.elem == "4") { std::vector<uint32_t> c(static_cast<size_t>(it.n)); memcpy(c.data(), d.data(), d.size()); o = lib([&] { doWrite(c); }, &what); }
					else if (it.elem == "s") { std::string c(d.begin(), d.end()); o = lib([&] { doWrite(c); }, &what); }
					else if ((it.v & 3) == 0 && it.n <= 255) { NarrowVec<uint8_t> c{d}; o = lib([&] { doWrite(c); }, &what); ctx.count("probe.container_with_narrow_size_type"); }
					else if ((it.v & 3) == 0 && it.n <= 65535) { NarrowVec<uint16_t> c{d}; o = lib([&] { doWrite(c); }, &what); ctx.count("probe.container_with_narrow_size_type"); }
					else { std::vector<uint8_t> c(d); o = lib([&] { doWrite(c); }, &what); }
					if (!ok) ctx.count("probe.prefix_too_small");
					if (ok && it.n == maxv) ctx.count("probe.prefix_exactly_full");
				}
				if (o == ErrOther) ctx.fail("C14.typed-inverse", desc + ": threw a non-std exception");
				if (ok && o != OkOut) ctx.fail("C14.typed-inverse", desc + ": refused: " + what);
				if (!ok && o == OkOut) ctx.fail("C14.prefix-refuse", desc + ": container size does not fit the prefix type but the write succeeded (size field truncated)");
				if (ok) { model.insert(model.end(), enc.begin(), enc.end()); pos = model.size(); items.push_back(it); if (!enc.empty()) changed = true; }
				else {
					// refusal: whatever is there must still start with the old content; adopt it
					uint64_t l;
					{ Armed arm; l = w->Length(); }
					if (l < model.size()) ctx.fail("C14.prefix-refuse", desc + ": refused write shortened the stream");
					if (l != model.size()) { itemsValid = false; std::vector<uint8_t> got(static_cast<size_t>(l)); { Armed arm; auto rd = dw->GetReader(); rd.Read(got.data(), got.size()); }
						if (memcmp(got.data(), model.data(), model.size()) != 0) ctx.fail("C14.prefix-refuse", desc + ": refused write altered earlier content"); model = got; pos = model.size(); }
				}
				checkState(desc, !ok);
				ctx.event("twrite " + it.what + (ok ? " ok" : " refused"));
			} else if (v == "readback") {
				readBackAll("read-back");
				if (dyn && itemsValid && !items.empty()) {
					// inverse: typed reads in the same order return the written values and consume exactly the encoded bytes
					std::string failMsg;
					Out o = callLib(plan, [&] {
						auto rd = dw->GetReader();
						rd.Seek(itemsStart);
						for (auto& it : items) {
							if (it.what == "u8") { uint8_t x; rd.Read(x); if (x != static_cast<uint8_t>(it.v)) failMsg = "u8"; }
							else if (it.what == "u16") { uint16_t x; rd.Read(x); if (x != static_cast<uint16_t>(it.v)) failMsg = "u16"; }
							else if (it.what == "u32") { uint32_t x; rd.Read(x); if (x != static_cast<uint32_t>(it.v)) failMsg = "u32"; }
							else if (it.what == "u64") { uint64_t x; rd.Read(x); if (x != it.v) failMsg = "u64"; }
							else if (it.what == "vec16") { std::vector<uint16_t> c(static_cast<size_t>(it.n)); rd.Read(c); auto d = prngBytes(it.v, c.size() * 2); if (memcmp(c.data(), d.data(), d.size()) != 0) failMsg = "vec16"; }
							else if (it.what == "str") { std::string c(static_cast<size_t>(it.n), 'x'); rd.Read(c); auto d = prngBytes(it.v, c.size()); if (memcmp(c.data(), d.data(), d.size()) != 0) failMsg = "str"; }
							else {
								size_t es = it.elem == "4" ? 4 : 1;
								auto d = prngBytes(it.v, static_cast<size_t>(it.n) * es);
								auto doRead = [&](auto& cont) {
									if (it.st == "u8") rd.Read<uint8_t>(cont); else if (it.st == "i8") rd.Read<int8_t>(cont);
									else if (it.st == "u16") rd.Read<uint16_t>(cont); else if (it.st == "i16") rd.Read<int16_t>(cont);
									else if (it.st == "u32") rd.Read<uint32_t>(cont); else if (it.st == "i32") rd.Read<int32_t>(cont);
									else if (it.st == "u64") rd.Read<uint64_t>(cont); else rd.Read<int64_t>(cont);
								};
								if (it.elem == "4") { std::vector<uint32_t> c; doRead(c); if (c.size() != it.n || memcmp(c.data(), d.data(), d.size()) != 0) failMsg = "pfx/4"; }
								else if (it.elem == "s") { std::string c; doRead(c); if (c.size() != it.n || memcmp(c.data(), d.data(), d.size()) != 0) failMsg = "pfx/s"; }
								else { std::vector<uint8_t> c; doRead(c); if (c.size() != it.n || memcmp(c.data(), d.data(), d.size()) != 0) failMsg = "pfx/1"; }
							}
							if (!failMsg.empty()) return;
						}
						if (rd.Position() != rd.Length()) failMsg = "typed reads consumed " + std::to_string(rd.Position() - itemsStart) + " bytes, typed writes produced " + std::to_string(rd.Length() - itemsStart);
					}, &what);
					if (o != OkOut) ctx.fail("C14.typed-inverse", "typed reads of what typed writes produced failed: " + what);
					if (!failMsg.empty()) ctx.fail("C14.typed-inverse", "typed read did not return the typed write's value: " + failMsg);
					ctx.count("probe.typed_inverse_checked");
				}
				ctx.event("readback " + hex64(fnv1a(model.data(), model.size())));
			} else throw std::runtime_error("unknown op " + v);
		}
		ctx.nontrivial = changed;
		ctx.count("library_calls", plan.ops.size());
		{ Armed arm; mw.reset(); dw.reset(); }
	}

	std::string signatureDetail(const Plan& p, const Violation& v) override {
		std::string d = p.envs("writer", "mem");
		if (v.opIndex < p.ops.size()) d = p.ops[v.opIndex].verb + "/" + d;
		return d;
	}
};
FamilyRegistrar regWriterActors(new WriterActors);

// ---------------------------------------------------------------------------------------------
std::vector<uint8_t> structured(uint64_t seed, size_t len) { return prngBytes(seed, len); }

template <std::size_t Chunk> void copyWith(Stream::Writer& w, Stream::Reader& r) { w.Write<Chunk>(r); }

struct CopyMatrix : Family {
	std::string name() const override { return "copy-matrix"; }

	Plan generate(const std::string&, Rng& r, bool thorough) override {
		Plan p;
		static const uint64_t CH[] = {1, 2, 3, 5, 8, 64, 1000, 4096, 131072};
		static const char* BK[] = {"mem", "memslice", "file", "fileslice"};
		uint64_t chunk = CH[r.below(9)];
		if (chunk == 131072 && !thorough && r.chance(1, 2)) chunk = CH[r.below(8)];
		uint64_t len;
		switch (r.below(5)) {
		case 0: len = r.below(3); break;
		case 1: len = chunk * r.below(4); break;                 // exact multiples (incl. 0)
		case 2: len = chunk * r.range(1, 3) + r.range(1, 2); break; // just over
		case 3: len = chunk * r.range(1, 3) - 1; break;           // just under
		default: len = r.below(3 * chunk + 3); break;
		}
		p.setenv("backend", r.chance(1, 5) ? "sim" : BK[r.below(4)]); // sim: a stub reader at whose callbacks a second copy is interleaved
		p.setenv("pad_a", r.below(30));
		p.setenv("pad_b", r.below(30));
		p.setenv("heap", r.below(256));
		p.setenv("stack", r.below(256));
		static const uint64_t SR[] = {1, 3, 7, 64, 1000, 4096};
		bool big = len > 20000;
		p.setenv("short_read", r.chance(1, 2) ? 0 : SR[big ? 3 + r.below(3) : r.below(6)]);
		p.setenv("short_write", r.chance(1, 2) ? 0 : SR[big ? 3 + r.below(3) : r.below(6)]);
		p.setenv("eintr", r.chance(2, 3) ? 0 : r.range(2, 5));
		p.setenv("reuse_writer", r.chance(1, 3) ? 1 : 0);
		Line src = mkline("world", "src");
		src.set("cseed", hex64(r.next())).set("len", len);
		p.world.push_back(src);
		size_t n = static_cast<size_t>(r.range(1, 3));
		for (size_t i = 0; i < n; ++i) {
			Line op = mkline("op", "copy");
			op.set("chunk", i == 0 ? chunk : CH[r.below(big ? 9 : 8)]).set("start", r.chance(1, 3) ? "~0" : "~" + std::to_string(r.below(1000000))).set("dest", r.chance(1, 2) ? "dyn" : "file");
			p.ops.push_back(op);
		}
		return p;
	}

	void execute(const Plan& plan, RunCtx& ctx) override {
		std::vector<uint8_t> S;
		for (auto& l : plan.world) if (l.verb == "src") S = prngBytes(l.u("cseed"), static_cast<size_t>(l.u("len")));
		if (S.size() > (8u << 20)) throw std::runtime_error("source too large");
		std::string b = plan.envs("backend", "mem");
		uint64_t pa = plan.envu("pad_a", 0), pb = plan.envu("pad_b", 0);
		std::vector<uint8_t> whole;
		auto va = prngBytes(plan.seed ^ 0xaa, static_cast<size_t>(pa)), vb = prngBytes(plan.seed ^ 0xbb, static_cast<size_t>(pb));
		if (b == "memslice" || b == "fileslice") whole.insert(whole.end(), va.begin(), va.end());
		whole.insert(whole.end(), S.begin(), S.end());
		if (b == "memslice" || b == "fileslice") whole.insert(whole.end(), vb.begin(), vb.end());
		uint64_t base = (b == "memslice" || b == "fileslice") ? pa : 0;
		std::unique_ptr<char[]> block(new char[whole.size()]);
		memcpy(block.get(), whole.data(), whole.size());
		if (b == "file" || b == "fileslice") disk::put("src.bin", whole);
		bool any = false;
		// reuse_writer: all copies of the run go into ONE long-lived growing writer (chunk sizes differ between copies);
		// its content must be the concatenation of what each copy had to transfer
		bool reuse = plan.envu("reuse_writer", 0) != 0;
		std::unique_ptr<Stream::DynamicMemoryWriter> shared;
		std::vector<uint8_t> sharedWant;
		if (reuse) { Armed arm; shared = std::make_unique<Stream::DynamicMemoryWriter>(); }
		for (size_t i = 0; i < plan.ops.size(); ++i) {
			const Line& op = plan.ops[i];
			ctx.setOp(i);
			if (op.verb != "copy") throw std::runtime_error("unknown op " + op.verb);
			uint64_t chunk = op.u("chunk", 8);
			uint64_t start = resolveArg(op.get("start", "~0"), S.size() + 1, 0);
			bool toFile = op.get("dest", "dyn") == "file";
			ctx.schedNote(std::to_string(chunk) + b + (toFile ? "f" : "d"));
			std::unique_ptr<Stream::BidirectionalReader> rd;
			std::string what;
			Out o = callLib(plan, [&] {
				if (b == "mem") rd = std::make_unique<Stream::MemoryReader>(block.get(), whole.size());
				else if (b == "memslice") rd = std::make_unique<Stream::MemoryReader>(Stream::MemoryReader(block.get(), whole.size()).Slice(base, S.size()));
				else if (b == "file") rd = std::make_unique<Stream::FileReader>("src.bin");
				else if (b == "sim") rd = std::make_unique<SimReader>(S);
				else rd = std::make_unique<Stream::FileSliceReader>(Stream::FileReader("src.bin").Slice(base, S.size()));
				rd->Seek(start);
			}, &what);
			// Interleaving: while this copy is in progress (inside one of its reads) a second, unrelated copy with the same chunk size
			// runs to completion on other objects. Both must transfer exactly their own bytes.
			std::vector<uint8_t> otherSrc, otherGot;
			bool otherRan = false;
			if (auto* sr = dynamic_cast<SimReader*>(rd.get())) {
				otherSrc.resize(S.size() / 2 + 7);
				for (size_t q = 0; q < otherSrc.size(); ++q) otherSrc[q] = static_cast<uint8_t>((S.empty() ? 0x5a : ~S[q % S.size()]) + q);
				sr->interleaveAtCall = 1 + mix64(plan.seed, i) % 3;
				sr->interleaveBefore = (mix64(plan.seed, i + 17) % 3) == 0;
				sr->interleave = [&, chunk] {
					Stream::MemoryReader r2(otherSrc.data(), otherSrc.size());
					Stream::DynamicMemoryWriter w2;
					switch (chunk) {
					case 1: copyWith<1>(w2, r2); break; case 2: copyWith<2>(w2, r2); break; case 3: copyWith<3>(w2, r2); break; case 5: copyWith<5>(w2, r2); break;
					case 8: copyWith<8>(w2, r2); break; case 64: copyWith<64>(w2, r2); break; case 1000: copyWith<1000>(w2, r2); break; case 4096: copyWith<4096>(w2, r2); break;
					default: w2.Write(r2); break;
					}
					auto r3 = w2.GetReader(); otherGot.resize(static_cast<size_t>(r3.Length())); r3.Read(otherGot.data(), otherGot.size());
					otherRan = true;
				};
			}
			if (o != OkOut) ctx.fail("C14.copy-exact", "could not open the source reader: " + what);
			std::vector<uint8_t> got;
			std::string desc = "copy chunk=" + std::to_string(chunk) + " source length " + std::to_string(S.size()) + " start " + std::to_string(start) + " backend " + b + (toFile ? " -> file" : " -> memory");
			o = callLib(plan, [&] {
				std::unique_ptr<Stream::DynamicMemoryWriter> dw;
				std::unique_ptr<Stream::FileWriter> fw;
				Stream::Writer* w;
				if (reuse) w = shared.get();
				else if (toFile) { fw = std::make_unique<Stream::FileWriter>("out/dest.bin"); w = fw.get(); }
				else { dw = std::make_unique<Stream::DynamicMemoryWriter>(); w = dw.get(); }
				switch (chunk) {
				case 1: copyWith<1>(*w, *rd); break;
				case 2: copyWith<2>(*w, *rd); break;
				case 3: copyWith<3>(*w, *rd); break;
				case 5: copyWith<5>(*w, *rd); break;
				case 8: copyWith<8>(*w, *rd); break;
				case 64: copyWith<64>(*w, *rd); break;
				case 1000: copyWith<1000>(*w, *rd); break;
				case 4096: copyWith<4096>(*w, *rd); break;
				default: w->Write(*rd); break; // DefaultCopyChunkSize = 0x20000
				}
				if (dw) { auto r2 = dw->GetReader(); got.resize(static_cast<size_t>(r2.Length())); r2.Read(got.data(), got.size()); }
			}, &what);
			if (o != OkOut) ctx.fail("C14.copy-exact", desc + ": copy failed: " + what);
			if (auto* sr = dynamic_cast<SimReader*>(rd.get())) {
				if (!sr->interleaveError.empty()) ctx.fail("C14.copy-exact", desc + ": the copy interleaved into it failed: " + sr->interleaveError);
				if (otherRan && otherGot != otherSrc) ctx.fail("C14.copy-exact", desc + ": a second copy (same chunk size, other objects) interleaved into it transferred other bytes than its source holds");
				if (otherRan) ctx.count("probe.second_copy_interleaved");
				sr->interleave = nullptr;
			}
			if (reuse) {
				sharedWant.insert(sharedWant.end(), S.begin() + static_cast<long>(start), S.end());
				std::vector<uint8_t> all;
				{ Armed arm; auto r2 = shared->GetReader(); all.resize(static_cast<size_t>(r2.Length())); r2.Read(all.data(), all.size()); }
				if (all != sharedWant) ctx.fail("C14.copy-exact", desc + " into a writer that already received " + std::to_string(i) + " earlier copies: writer holds " + std::to_string(all.size()) + " bytes, the copies so far had to transfer " + std::to_string(sharedWant.size()));
				got.assign(S.begin() + static_cast<long>(start), S.end());
				ctx.count("probe.copy_into_reused_writer");
			} else
			if (toFile) { if (!disk::get("out/dest.bin", got)) ctx.fail("C14.copy-exact", desc + ": destination file missing after close"); }
			size_t want = S.size() - static_cast<size_t>(start);
			if (got.size() != want || memcmp(got.data(), S.data() + start, want) != 0) {
				size_t k = 0;
				while (k < got.size() && k < want && got[k] == S[start + k]) ++k;
				ctx.fail("C14.copy-exact", desc + ": destination has " + std::to_string(got.size()) + " bytes, expected exactly the " + std::to_string(want) + " remaining source bytes (first difference at " + std::to_string(k) + ")");
			}
			// In-bounds afterwards only for readers that survive hitting their end (file readers latch EOF).
			if (b == "mem" || b == "memslice" || b == "fileslice" || b == "sim") {
				uint64_t p, l;
				{ Armed arm; p = rd->Position(); l = rd->Length(); }
				if (p != l || l != S.size()) ctx.fail("C14.copy-exact", desc + ": source reader afterwards at " + std::to_string(p) + "/" + std::to_string(l) + ", expected at its end " + std::to_string(S.size()));
			}
			if (want % chunk != 0) ctx.count("probe.length_not_chunk_multiple");
			if (want > chunk) ctx.count("probe.multi_chunk");
			if (want) any = true;
			{ Armed arm; rd.reset(); }
			ctx.event("copy " + std::to_string(chunk) + " " + std::to_string(want) + " " + hex64(fnv1a(got.data(), got.size())));
		}
		ctx.nontrivial = any;
		ctx.count("library_calls", plan.ops.size());
	}
	std::string signatureDetail(const Plan& p, const Violation&) override { return p.envs("backend", "mem"); }
};
FamilyRegistrar regCopyMatrix(new CopyMatrix);

// ---------------------------------------------------------------------------------------------
struct FileWriterMatrix : Family {
	std::string name() const override { return "filewriter-matrix"; }

	Plan generate(const std::string&, Rng& r, bool) override {
		Plan p;
		p.setenv("heap", r.below(256));
		p.setenv("stack", r.below(256));
		static const uint64_t SW[] = {1, 3, 7, 64};
		p.setenv("short_write", r.chance(1, 2) ? 0 : SW[r.below(4)]);
		p.setenv("eintr", r.chance(2, 3) ? 0 : r.range(2, 5));
		// every run covers the whole 16 x 4 matrix in a seeded order, with seeded old content / written data; what is at the
		// destination beforehand: 0 nothing, 1 a regular file, 2 a FIFO (exists, is not a regular file), 3 a symbolic link to a regular file
		std::vector<uint64_t> cells;
		for (uint64_t c = 0; c < 64; ++c) cells.push_back(c);
		for (size_t i = cells.size(); i > 1; --i) std::swap(cells[i - 1], cells[r.below(i)]);
		for (uint64_t c : cells) {
			Line op = mkline("op", "open");
			op.set("flags", c & 15).set("exists", c >> 4).set("oldlen", r.below(60)).set("oldseed", hex64(r.next())).set("n1", r.below(40)).set("n2", r.below(40)).set("wseed", hex64(r.next()))
			  .set("path", r.chance(1, 3) ? "sub/dest.bin" : r.chance(1, 2) ? "./dest.bin" : "dest.bin");
			p.ops.push_back(op);
		}
		return p;
	}

	void execute(const Plan& plan, RunCtx& ctx) override {
		using FW = Stream::FileWriter;
		bool any = false;
		for (size_t i = 0; i < plan.ops.size(); ++i) {
			const Line& op = plan.ops[i];
			ctx.setOp(i);
			if (op.verb != "open") throw std::runtime_error("unknown op " + op.verb);
			disk::wipe();
			unsigned flags = static_cast<unsigned>(op.u("flags")) & 15;
			unsigned state = static_cast<unsigned>(op.u("exists")) & 3;
			bool exists = state != 0, fifo = state == 2;
			std::string path = op.get("path", "dest.bin");
			bool inSub = path.rfind("sub/", 0) == 0;
			std::vector<uint8_t> old = prngBytes(op.u("oldseed"), static_cast<size_t>(op.u("oldlen")));
			int fifoReader = -1;
			if (state == 1) disk::put(path, old);
			else if (state == 2) {
				if (inSub) disk::mkdirs("sub");
				if (mkfifo(path.c_str(), 0666) != 0) throw std::runtime_error("mkfifo failed");
				fifoReader = open(path.c_str(), O_RDONLY | O_NONBLOCK); // a reader is present, so opening the FIFO for writing does not block
				if (fifoReader < 0) throw std::runtime_error("cannot open the fifo for reading");
			} else if (state == 3) {
				std::string target = inSub ? "sub/target.bin" : "target.bin";
				disk::put(target, old);
				if (symlink("target.bin", path.c_str()) != 0) throw std::runtime_error("symlink failed");
			}
			auto before = disk::snapshot();
			bool canExisting = flags & FW::CanOpenExisting, canNew = flags & FW::CanOpenNew, trunc = flags & FW::Truncate, app = flags & FW::Append;
			bool refuse = (!canExisting && !canNew) || (trunc && app) || (!canExisting && exists) || (!canNew && !exists);
			std::vector<uint8_t> d1 = prngBytes(op.u("wseed"), static_cast<size_t>(op.u("n1"))), d2 = prngBytes(op.u("wseed") ^ 1, static_cast<size_t>(op.u("n2")));
			std::string what;
			ctx.schedNote(std::to_string(flags) + (state == 0 ? "n" : state == 1 ? "e" : state == 2 ? "f" : "l"));
			Out o = callLib(plan, [&] {
				auto w = (flags == static_cast<unsigned>(FW::OpenMode::Default) && (op.u("n2") & 1)) ? std::make_unique<FW>(path) : std::make_unique<FW>(path, static_cast<FW::OpenMode>(flags)); // default argument
				w->Write(d1.data(), d1.size());
				// the writer is moved between the two writes and the moved-from object is destroyed before the second one
				if (op.u("n1") & 1) { auto moved = std::make_unique<FW>(std::move(*w)); w.reset(); moved->Write(d2.data(), d2.size()); }
				else w->Write(d2.data(), d2.size());
			}, &what);
			std::string desc = "FileWriter(" + path + ", flags=" + std::to_string(flags) + (canExisting ? " CanOpenExisting" : "") + (canNew ? " CanOpenNew" : "") + (trunc ? " Truncate" : "") + (app ? " Append" : "") + "), destination " + (state == 2 ? "is a FIFO; " : state == 3 ? "is a symbolic link to a regular file; " : "") + "file " + (exists ? "exists with " + std::to_string(old.size()) + " bytes" : "does not exist");
			if (fifoReader >= 0) { char sink[4096]; while (read(fifoReader, sink, sizeof sink) > 0) {} close(fifoReader); }
			if (o == ErrOther) ctx.fail("C14.open-matrix", desc + ": threw a non-std exception");
			if (fifo && !refuse) {
				// something exists there that is not a regular file: whether it can be opened is the object's business (a FIFO cannot
				// be positioned at its end, for instance); only the refusals the flags demand are asserted
				ctx.count(o == OkOut ? "probe.fifo_opened" : "probe.fifo_open_failed");
				ctx.event("open " + std::to_string(flags) + " fifo");
				continue;
			}
			if (refuse) {
				if (o == OkOut) ctx.fail("C14.open-matrix", desc + ": open must be refused but succeeded");
				auto after = disk::snapshot();
				std::string diff = disk::snapshotDiff(before, after);
				// creating the parent directory of a file that may be created is not a modification of any file
				if (inSub && !exists && canNew) { auto it = after.find("sub"); if (it != after.end() && it->second.dir) { after.erase("sub"); diff = disk::snapshotDiff(before, after); } }
				if (!diff.empty()) ctx.fail("C14.open-matrix", desc + ": refused open changed the disk:" + diff);
				ctx.count("probe.open_refused");
			} else {
				if (o != OkOut) ctx.fail("C14.open-matrix", desc + ": open/write must succeed but failed: " + what);
				std::vector<uint8_t> got;
				if (!disk::get(path, got)) ctx.fail("C14.open-matrix", desc + ": file missing after close");
				std::vector<uint8_t> written(d1);
				written.insert(written.end(), d2.begin(), d2.end());
				if (trunc || !exists) {
					if (got != written) ctx.fail("C14.open-matrix", desc + ": durable content has " + std::to_string(got.size()) + " bytes; expected exactly the " + std::to_string(written.size()) + " bytes written");
				} else if (app) {
					std::vector<uint8_t> want(old);
					want.insert(want.end(), written.begin(), written.end());
					if (got != want) ctx.fail("C14.open-matrix", desc + ": durable content has " + std::to_string(got.size()) + " bytes; Append must preserve the " + std::to_string(old.size()) + " old bytes and add the " + std::to_string(written.size()) + " written (expected " + std::to_string(want.size()) + ")");
					ctx.count("probe.append_on_existing");
				} // neither Truncate nor Append on an existing file: the flags do not say; not asserted
				any = true;
			}
			ctx.event("open " + std::to_string(flags) + (exists ? " e " : " n ") + (refuse ? "refused" : "ok"));
		}
		// two appending writers alive on ONE path at the same time, their writes and closes in a seeded order: Append means every byte
		// written goes to the end of the file, so nothing either of them wrote may be lost or overwritten (which of the two lands
		// first depends on when each flushes, which the flags do not say: both orders are accepted)
		if (!plan.ops.empty()) {
			disk::wipe();
			ctx.setOp(plan.ops.size() - 1);
			uint64_t sd = plan.seed;
			std::vector<uint8_t> old = prngBytes(sd ^ 0xa1, static_cast<size_t>(sd % 50)), A = prngBytes(sd ^ 0xa2, 1 + static_cast<size_t>(sd % 37)), B = prngBytes(sd ^ 0xa3, 1 + static_cast<size_t>((sd >> 8) % 41));
			bool exists = (sd >> 16) & 1;
			if (exists) disk::put("pair.bin", old); else old.clear();
			FW::OpenMode mode = static_cast<FW::OpenMode>(static_cast<unsigned>(FW::CanOpenExisting) | static_cast<unsigned>(FW::CanOpenNew) | static_cast<unsigned>(FW::Append));
			std::string what;
			Out o = callLib(plan, [&] {
				auto w1 = std::make_unique<FW>("pair.bin", mode);
				auto w2 = std::make_unique<FW>("pair.bin", mode);
				if ((sd >> 17) & 1) { w1->Write(A.data(), A.size()); w2->Write(B.data(), B.size()); } else { w2->Write(B.data(), B.size()); w1->Write(A.data(), A.size()); }
				if ((sd >> 18) & 1) { w1.reset(); w2.reset(); } else { w2.reset(); w1.reset(); }
			}, &what);
			if (o != OkOut) ctx.fail("C14.open-matrix", "two appending FileWriters on one path: open/write failed: " + what);
			std::vector<uint8_t> got, ab(old), ba(old);
			disk::get("pair.bin", got);
			ab.insert(ab.end(), A.begin(), A.end()); ab.insert(ab.end(), B.begin(), B.end());
			ba.insert(ba.end(), B.begin(), B.end()); ba.insert(ba.end(), A.begin(), A.end());
			if (got != ab && got != ba) ctx.fail("C14.open-matrix", "two appending FileWriters alive on one path (" + std::to_string(old.size()) + " old bytes, " + std::to_string(A.size()) + " and " + std::to_string(B.size()) + " bytes appended): the file holds " + std::to_string(got.size()) + " bytes and is neither old+A+B nor old+B+A");
			ctx.count("probe.two_appenders_on_one_path");
		}
		ctx.nontrivial = any;
		ctx.count("library_calls", plan.ops.size() * 3);
	}
	std::string signatureDetail(const Plan& p, const Violation& v) override {
		if (v.opIndex < p.ops.size()) return "flags=" + p.ops[v.opIndex].get("flags") + "/exists=" + p.ops[v.opIndex].get("exists");
		return "";
	}
};
FamilyRegistrar regFileWriterMatrix(new FileWriterMatrix);

} // namespace
} // namespace sim

// Helpers shared by scenario files.
#pragma once
#include <type_traits>
#include <memory>
#include "../kernel/core.h"
#include "../seams/env.h"
#include <exception>
#include <string>

namespace sim {

enum Out { OkOut, ErrStd, ErrOther };

// Run one library call: stack scribbled, fault layer armed, outcome classified.
template <class F> Out callLib(const Plan& plan, F&& f, std::string* what = nullptr) {
	scribbleStack(static_cast<unsigned char>(plan.envu("stack", 0x5a)));
	Armed arm;
	try { f(); return OkOut; }
	catch (const std::exception& e) { g_alloc.failCountdown = 0; g_alloc.injectionInFlight = false; if (what) *what = e.what(); return ErrStd; }
	catch (...) { g_alloc.failCountdown = 0; g_alloc.injectionInFlight = false; if (what) *what = "non-std exception"; return ErrOther; }
}

inline std::string outName(Out o) { return o == OkOut ? "ok" : o == ErrStd ? "error" : "foreign-exception"; }

// Letter-case / "./" variants of a member name used for lookups.
inline std::string caseVariant(const std::string& name, uint64_t k) {
	std::string s = name;
	switch (k % 6) {
	case 0: break;
	case 1: for (auto& c : s) if (c >= 'a' && c <= 'z') c = static_cast<char>(c - 32); break;
	case 2: for (auto& c : s) if (c >= 'A' && c <= 'Z') c = static_cast<char>(c + 32); break;
	case 3: for (size_t i = 0; i < s.size(); ++i) { char& c = s[i]; if (i % 2 == 0 && c >= 'a' && c <= 'z') c = static_cast<char>(c - 32); else if (i % 2 && c >= 'A' && c <= 'Z') c = static_cast<char>(c + 32); } break;
	case 4: s = "./" + s; break;
	case 5: for (auto& c : s) if (c >= 'a' && c <= 'z') c = static_cast<char>(c - 32); s = "./" + s; break;
	}
	return s;
}

// A size on or next to a boundary that buffers, chunks and length fields tend to have: 2^k - 1, 2^k, 2^k + 1 (k = 8..maxLog2)
// or a small multiple of 4096 / 8192 (+-1).
inline uint64_t boundarySize(Rng& r, unsigned maxLog2 = 17) {
	if (r.chance(1, 3)) { uint64_t unit = r.chance(1, 2) ? 4096 : 8192; uint64_t v = unit * r.range(1, (1ull << maxLog2) / unit); return v + r.below(3) - 1; }
	uint64_t p2 = 1ull << r.range(8, maxLog2);
	return p2 + r.below(3) - 1;
}

// Lexical normal form of a path inside the scratch root: relative, no "./", "//", "x/../".
inline std::string normPath(std::string p) {
	std::string root = disk::scratchRoot() + "/";
	if (p.compare(0, root.size(), root) == 0) p = p.substr(root.size());
	std::vector<std::string> parts;
	size_t i = 0;
	while (i <= p.size()) {
		size_t j = p.find('/', i);
		if (j == std::string::npos) j = p.size();
		std::string part = p.substr(i, j - i);
		if (part == "..") { if (!parts.empty()) parts.pop_back(); }
		else if (!part.empty() && part != ".") parts.push_back(part);
		i = j + 1;
	}
	std::string out;
	for (auto& q : parts) out += (out.empty() ? "" : "/") + q;
	return out;
}

// Paths the last armed library call(s) created, rewrote, renamed or removed that are neither the destination nor one of the
// listed inputs: temporary / side files of the implementation. (The trace is reset by the caller before the call.)
inline std::vector<std::string> sidePaths(const std::string& destination, const std::vector<std::string>& inputsOnDisk) {
	std::vector<std::string> out;
	std::string d = normPath(destination);
	for (int i = 0; i < g_fault.touchedCount; ++i) {
		std::string t = g_fault.touched[i];
		if (!t.empty() && t[0] == '/' && t.compare(0, disk::scratchRoot().size(), disk::scratchRoot()) != 0) continue; // outside the simulated disk
		std::string n = normPath(t);
		if (n.empty() || n == d) continue;
		bool isInput = false;
		for (auto& in : inputsOnDisk) if (normPath(in) == n) isInput = true;
		if (isInput) continue;
		bool have = false;
		for (auto& o : out) if (o == n) have = true;
		if (!have) out.push_back(n);
	}
	return out;
}

// Common environment swarm for file-based families.
inline void swarmEnv(Plan& p, Rng& r, bool readFaults, bool writeFaults, bool bigFiles = false) {
	p.setenv("heap", r.below(256));
	p.setenv("stack", r.below(256));
	p.setenv("shift", r.chance(1, 2) ? 0 : r.below(5000));
	static const uint64_t SR[] = {1, 3, 7, 64, 1000, 4096};
	size_t lo = bigFiles ? 3 : 0;
	p.setenv("short_read", (readFaults && r.chance(1, 2)) ? SR[lo + r.below(6 - lo)] : 0);
	p.setenv("short_write", (writeFaults && r.chance(1, 2)) ? SR[lo + r.below(6 - lo)] : 0);
	p.setenv("eintr", ((readFaults || writeFaults) && r.chance(1, 3)) ? r.range(2, 5) : 0);
	p.setenv("readdir", r.chance(1, 2) ? r.next() | 1 : 0);
	// the process environment: what LANG / LC_ALL say (including locales that do not exist here) and the C locale in force
	if (r.chance(1, 6)) { static const char* L[] = {"C", "C.UTF-8", "POSIX", "en_US.UTF-8", "xx_YY.bogus", "tr_TR.ISO-8859-9"}; p.setenv(r.chance(1, 4) ? "os.LC_ALL" : "os.LANG", L[r.below(6)]); }
	if (r.chance(1, 10)) p.setenv("clocale", "C.UTF-8");
}

// Value semantics of an archive object: at a seeded point of a history the object in use is replaced by a copy of itself (the
// original is destroyed), or by an object moved out of such a copy. Every later call must behave as before.
template <class A> void maybeCloneArchive(const Plan& plan, RunCtx& ctx, std::unique_ptr<A>& ar, size_t opIndex, const char* clause) {
	if (!ar || mix64(plan.seed, 0xC10E) % 8 != opIndex % 8 || mix64(plan.seed, 3) % 3 == 0) return;
	// (no property promises that these objects can be copied: if the library makes them non-copyable, the lane is simply absent)
	if constexpr (std::is_copy_constructible<A>::value && std::is_move_constructible<A>::value) {
		std::string what;
		Out o = callLib(plan, [&] {
			auto c = std::make_unique<A>(*ar);
			if (mix64(plan.seed, 5) & 1) { auto d = std::make_unique<A>(std::move(*c)); c = std::move(d); }
			ar = std::move(c);
		}, &what);
		if (o != OkOut) ctx.fail(clause, "copying the archive object failed: " + what);
		ctx.count("probe.archive_object_cloned");
	}
}

// Replace `obj` by a copy of itself / an object moved out of a copy (how = 1 / 2), if the type can be copied at all.
template <class T> void cloneValue(T& obj, uint64_t how) {
	if constexpr (std::is_copy_constructible<T>::value && std::is_copy_assignable<T>::value && std::is_move_constructible<T>::value) {
		T c(obj);
		if (how == 1) { T d(std::move(c)); obj = d; } else obj = c;
	}
}

// Worlds holding megabytes: byte-sized transfers would only multiply intercepted calls (and run into the per-call I/O budget,
// which exists to catch endless loops); keep short transfers, but not below 64 bytes.
inline void coarsenFaultsForBigWorld(Plan& p) {
	for (const char* k : {"short_read", "short_write"}) { uint64_t v = p.envu(k, 0); if (v && v < 64) p.setenv(k, 64); }
}

inline std::string randName(Rng& r, size_t minLen, size_t maxLen, bool punct) {
	static const std::string alnum = "abcdefghijklmnopqrstuvwxyzABCDEFGHIJKLMNOPQRSTUVWXYZ0123456789";
	static const std::string extra = "_-.~!@#$^&()+={}[],;' `|\\";
	size_t n = static_cast<size_t>(r.range(minLen, maxLen));
	std::string s;
	for (size_t i = 0; i < n; ++i) {
		if (i == 0 || i + 1 == n || !punct || r.chance(3, 4)) s.push_back(alnum[r.below(alnum.size())]);
		else s.push_back(extra[r.below(extra.size())]);
	}
	return s;
}

// A name that differs from `base` only in characters whose codes differ by 0x20 without being the two
// cases of one letter ('@'/'`', '['/'{', ']'/'}', '^'/'~', '\\'/'|'): a correct case-insensitive comparison
// keeps such names apart, a bit-trick folding equates them. Returns "" if `base` has no such character.
inline std::string bit5Sibling(const std::string& base, Rng& r) {
	std::vector<size_t> at;
	for (size_t i = 0; i < base.size(); ++i) { char c = base[i]; if (c == '@' || c == '`' || c == '[' || c == '{' || c == ']' || c == '}' || c == '^' || c == '~' || c == '|') at.push_back(i); }
	if (at.empty()) return "";
	std::string s = base;
	size_t n = 1 + static_cast<size_t>(r.below(at.size()));
	for (size_t k = 0; k < n; ++k) { size_t i = at[r.below(at.size())]; if (s[i] == '|') continue; s[i] = static_cast<char>(base[i] ^ 0x20); }
	return s == base ? "" : s;
}

// A name that a sloppy comparison may take for `base` although it is a different name: same stem with another (or no) extension,
// same text after a backslash (an ordinary character on this platform), a trailing dot, or a bit-5 sibling.
inline std::string tieProneSibling(const std::string& base, Rng& r) {
	switch (r.below(7)) {
	case 5: case 6: {
		// one letter replaced by a character that sorts between 'Z' and 'a': folding to upper case and folding to lower case order
		// such a pair differently
		std::vector<size_t> at;
		for (size_t i = 0; i < base.size(); ++i) if (isalpha(static_cast<unsigned char>(base[i]))) at.push_back(i);
		if (at.empty()) return base + "_";
		std::string s = base;
		static const char C[] = {'[', '\\', ']', '^', '_', '`'};
		s[at[r.below(at.size())]] = C[r.below(6)];
		if (s[0] == '_') s[0] = '^'; // harness-owned paths start with '_'
		return s;
	}
	case 0: { size_t dot = base.rfind('.'); std::string stem = dot == std::string::npos || dot == 0 ? base : base.substr(0, dot); static const char* E[] = {".txt", ".bmp", ".map", "", ".t", ".TXT2"}; return stem + E[r.below(6)]; }
	case 1: return std::string(1, static_cast<char>('a' + r.below(26))) + std::string(1 + r.below(2), 'q') + "\\" + base;
	case 2: { size_t bs = base.rfind('\\'); return std::string(1, static_cast<char>('A' + r.below(26))) + "\\" + (bs == std::string::npos ? base : base.substr(bs + 1)); }
	case 3: return base + ".";
	default: { std::string sib = bit5Sibling(base, r); return sib.empty() ? base + "~" : sib; }
	}
}

// Names that are different but agree on a common cheap 32-bit string digest (FNV-1a-32, FNV-1-32, the x31 and x33 multiplicative
// hashes, the byte sum): a lookup table or cache keyed by the digest alone confuses them. The cores contain no letters, so the pairs
// also collide after any case folding; a common suffix keeps every one of these collisions. Returns the missing twin of a name already
// in `names` if there is one, otherwise one half of a fresh pair (the other half follows on a later call).
inline std::string digestTwin(const std::vector<std::string>& names, Rng& r, size_t maxLen) {
	static const char* const T[][2] = {
		// FNV-1a-32
		{"&(7()~", ",%23;_"}, {";3!7&_", "-4=8$-"}, {")=$27_", "%;#+4("}, {"&$#,40", ",(2=88"}, {"94;649", "80+7~!"}, {",05926", "=9&+2+"},
		{"7,%8)=", ",!_5;0"}, {")=84($", "&9%$=="}, {"=+)3(5", "%4=1+!"}, {"-~;;)3", "(07#=~"}, {"9##,_)", "=%0+$,"}, {"7=4,18", "&,;8;%"},
		{"9(~36#", "1&9~=4"}, {"3;(+1_", "22)0_3"}, {"+0(+-$", "-!0,;2"}, {"=-;32~", "+3~7=,"}, {"2_$2#4", "+0~)%;"}, {"4=&9-3", "3+!~(%"},
		{"0,;$6!", ")+&=#$"}, {"+77811", "9(1_;;"}, {";0%45&", ")%$(&;"}, {"+#5&-$", "(%00+("}, {"#4+-%%", "=;-78;"},
		// FNV-1-32
		{"3=90-&", "=4=#6;"}, {"66$396", "2;~3~("}, {",3)8_5", "&6;!7%"}, {"%,2((5", ";40#20"}, {"8%9(#)", "$!),35"}, {"3,$-_,", "-!=#65"},
		{",2&&00", "$5974_"}, {",14&85", ",5;7~_"}, {"49(598", "$12#07"}, {"$12~~!", "&99#67"}, {"+5-5))", "#)_45~"}, {"$4));!", "3;8#=4"},
		{"8%&#~1", "2#5478"}, {"-5;&0,", "6$&;9)"}, {";,019#", "+#0,9%"}, {"57!~5,", "9$08_,"}, {",01419", "-0$-+&"}, {"$+$39$", "4,;90;"},
		// FNV-1a-32 and FNV-1-32 of "./" + name (a normalised spelling)
		{"=143-~", "27&7);"}, {")48=-3", ")4$474"}, {"#!2;$(", "!0+3=7"}, {"$&080=", "675+=)"}, {"~1443$", "~-#04$"}, {"8(~8;;", "($;)97"},
		{"2==3&7", "~92!)="}, {"$&44&)", "67173="}, {")65(++", "447~~5"}, {"5;6$8&", "95,-83"},
		{")$,-!$", "#!5+4="}, {",#7#97", "3$$5;8"}, {"~&1=(=", "&=,#+6"}, {"(#&;$+", "#8($($"}, {"$+2+8-", ",16),5"}, {"60;#8,", "897,+1"},
		{"9=108-", "9=-#,&"}, {"7-!7;;", "9,5(&$"}, {"6-70&;", "$28737"}, {"8#524-", "4-#340"},
		// h*31+c, h*33+c, byte sum / xor
		{"1_", "2@"}, {"1~", "2_"}, {"7_", "8@"}, {"1_", "2>"}, {"1~", "2]"}, {"5_", "6>"}, {"19", "91"}, {"3-7", "7-3"},
	};
	static const size_t N = sizeof T / sizeof T[0];
	auto has = [&](const std::string& c) { for (auto& o : names) if (o == c) return true; return false; };
	for (auto& nm : names) for (size_t k = 0; k < N; ++k) for (int side = 0; side < 2; ++side) {
		std::string a = T[k][side], b = T[k][1 - side];
		if (nm.size() >= a.size() && nm.compare(0, a.size(), a) == 0) { std::string c = b + nm.substr(a.size()); if (!has(c)) return c; }
	}
	size_t k = static_cast<size_t>(r.below(N)), side = static_cast<size_t>(r.below(2));
	std::string core = T[k][side];
	static const char* S[] = {"", "", ".t", "x", "K9", ".wav", ".txt", "_long.name"};
	std::string suf = S[r.below(8)];
	if (core.size() + suf.size() > maxLen) suf = suf.substr(0, maxLen > core.size() ? maxLen - core.size() : 0);
	if (!suf.empty() && suf.back() == '.') suf.pop_back();
	return core + suf;
}

// Same length, other content - and, where the length allows, the same value under a cheap digest an implementation might use to decide
// "already up to date": CRC-32 (any multiple of the generator polynomial may be added), Adler-32 / byte sum (a +1 -2 +1 change keeps both
// running sums), a plain byte sum or xor (two bytes exchanged), or only the last byte differs. `how` selects; falls back to the complement.
inline std::vector<uint8_t> digestDecoy(const std::vector<uint8_t>& data, uint64_t how) {
	std::vector<uint8_t> d = data;
	uint64_t kind = how % 5, at = how / 5;
	if (kind == 1 && d.size() >= 5) {
		static const char* G = "100000100110000010001110110110111";
		size_t p0 = static_cast<size_t>(at % ((d.size() - 5) * 8 + 7 + 1));
		for (size_t j = 0; j < 33; ++j) if (G[j] == '1') { size_t p = p0 + j; d[p / 8] ^= static_cast<uint8_t>(1u << (p % 8)); }
		return d;
	}
	if (kind == 2 && d.size() >= 3) {
		for (size_t k = 0; k + 2 < d.size(); ++k) { size_t i = static_cast<size_t>((at + k) % (d.size() - 2)); if (d[i] < 255 && d[i + 1] >= 2 && d[i + 2] < 255) { d[i] += 1; d[i + 1] -= 2; d[i + 2] += 1; return d; } }
	}
	if (kind == 3 && d.size() >= 2) {
		for (size_t k = 0; k + 1 < d.size(); ++k) { size_t i = static_cast<size_t>((at + k) % (d.size() - 1)); if (d[i] != d[i + 1]) { std::swap(d[i], d[i + 1]); return d; } }
	}
	if (kind == 4 && !d.empty()) { d.back() ^= static_cast<uint8_t>(1 + at % 255); return d; }
	for (auto& b : d) b = static_cast<uint8_t>(~b);
	return d;
}

// Payloads with structure a data-dependent shortcut may key on: 0 pseudo-random, 1 all zero, 2 second half zero, 3 first half zero,
// 4 all 0xff, 5 one byte repeated, 6 a 4 KiB block repeated
inline std::vector<uint8_t> patternBytes(uint64_t seed, size_t len, uint64_t pat) {
	if (pat == 0) return prngBytes(seed, len);
	std::vector<uint8_t> d(len, 0);
	if (pat == 2 || pat == 3) { std::vector<uint8_t> h = prngBytes(seed, len - len / 2); if (pat == 2) std::copy(h.begin(), h.end(), d.begin()); else std::copy(h.begin(), h.end(), d.begin() + static_cast<long>(len / 2)); }
	else if (pat == 4) std::fill(d.begin(), d.end(), 0xff);
	else if (pat == 5) std::fill(d.begin(), d.end(), static_cast<uint8_t>(seed | 1));
	else if (pat == 6) { std::vector<uint8_t> b = prngBytes(seed, 4096); for (size_t i = 0; i < len; ++i) d[i] = b[i % 4096]; }
	return d;
}

} // namespace sim

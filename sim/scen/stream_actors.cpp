// Family "stream-actors": readers (memory, memory slice, file, file slice, nested slice, copies) as
// cooperative actors over one source, driven by a seeded scheduler, checked step by step against a
// byte-vector/cursor reference model.  Decides C12 (single-actor histories, boundary arguments,
// typed helpers) and C13 (interleavings among several live objects sharing one source).
#include "../kernel/core.h"
#include "../seams/env.h"
#include "../seams/simstream.h"
#include "Stream/FileReader.h"
#include "Stream/MemoryReader.h"
#include "Stream/SliceReader.h"
#include <cstring>
#include <memory>
#include <stdexcept>
#include <unistd.h>

using namespace OP2Utility;

namespace sim {

// Source bytes: pseudo-random, but about a quarter of the bytes are small (0..3) so NUL terminators
// and small size prefixes occur naturally.
static std::vector<uint8_t> structuredBytes(uint64_t seed, size_t len) {
	std::vector<uint8_t> a = prngBytes(seed, len), b = prngBytes(seed ^ 0x1234567, len);
	for (size_t i = 0; i < len; ++i) if ((b[i] & 3) == 0) a[i] &= 3;
	return a;
}

namespace {

typedef unsigned __int128 u128;

enum class Kind { Mem, File, FSlice };

struct Actor {
	Kind kind;
	std::unique_ptr<Stream::BidirectionalReader> obj;
	Stream::MemoryReader* mem = nullptr;
	Stream::FileReader* file = nullptr;
	Stream::FileSliceReader* fslice = nullptr;
	// model
	uint64_t base = 0, len = 0, pos = 0;
	bool root = false;
	int depth = 0;
};

struct Rec { uint64_t off; std::string pfx; std::string elem; };

struct World {
	std::vector<uint8_t> S;
	std::vector<Rec> recs;
	uint64_t padA = 0, padB = 0;
	std::string backend;
};

const uint64_t kMaxU = ~0ull;

// "~K" -> K mod m ; "W+K" -> 2^64 - pos + K ; number -> absolute
uint64_t resolveArg(const std::string& tok, uint64_t m, uint64_t pos) {
	if (tok.empty()) return 0;
	if (tok[0] == '~') return m ? parseU64(tok.substr(1)) % m : 0;
	if (tok[0] == 'W') return (0 - pos) + parseU64(tok.substr(2));
	return parseU64(tok);
}

struct Exec {
	RunCtx& ctx;
	const Plan& plan;
	World w;
	bool c13;
	std::unique_ptr<char[]> memBlock; // exact-size heap copy backing the memory readers
	std::vector<std::unique_ptr<Actor>> actors;
	bool moved = false;

	Exec(RunCtx& c, const Plan& p) : ctx(c), plan(p), c13(p.property == "C13") {}

	std::string cl(const char* c12, const char* c13name) const { return c13 ? std::string("C13.") + c13name : std::string("C12.") + c12; }

	void buildWorld() {
		w.backend = plan.envs("backend", "mem");
		w.padA = plan.envu("pad_a", 0);
		w.padB = plan.envu("pad_b", 0);
		for (auto& l : plan.world) {
			if (l.verb == "src") {
				w.S = structuredBytes(l.u("cseed"), static_cast<size_t>(l.u("len")));
				// nonul: NUL bytes only every `nonul` bytes, so bounded string reads of several KiB meet their bound, not a terminator
				uint64_t gap = l.u("nonul", 0);
				if (gap) for (size_t i = 0; i < w.S.size(); ++i) if (w.S[i] == 0 && (i + 1) % gap != 0) w.S[i] = 0x41;
			}
		}
		for (auto& l : plan.world) {
			if (l.verb != "rec") continue;
			Rec r{l.u("off"), l.get("pfx", "u8"), l.get("elem", "1")};
			// plant the prefix value (little endian) if it fits
			std::string p = r.pfx;
			size_t sz = p == "u8" || p == "i8" ? 1 : p == "u16" || p == "i16" ? 2 : p == "u32" || p == "i32" ? 4 : 8;
			uint64_t val = l.u("val");
			if (r.off + sz <= w.S.size()) for (size_t i = 0; i < sz; ++i) w.S[r.off + i] = static_cast<uint8_t>(val >> (8 * i));
			w.recs.push_back(r);
		}
	}

	Actor* add(std::unique_ptr<Actor> a) { actors.push_back(std::move(a)); return actors.back().get(); }

	void spawnRoot() {
		auto a = std::make_unique<Actor>();
		a->root = true;
		a->base = 0;
		a->len = w.S.size();
		const std::string& b = w.backend;
		if (b == "mem") {
			memBlock.reset(new char[w.S.size()]);
			memcpy(memBlock.get(), w.S.data(), w.S.size());
			auto r = std::make_unique<Stream::MemoryReader>(memBlock.get(), w.S.size());
			a->kind = Kind::Mem; a->mem = r.get(); a->obj = std::move(r);
		} else if (b == "memslice") {
			size_t total = static_cast<size_t>(w.padA + w.S.size() + w.padB);
			memBlock.reset(new char[total]);
			auto pa = prngBytes(plan.seed ^ 0xaa, static_cast<size_t>(w.padA)), pb = prngBytes(plan.seed ^ 0xbb, static_cast<size_t>(w.padB));
			memcpy(memBlock.get(), pa.data(), pa.size());
			memcpy(memBlock.get() + w.padA, w.S.data(), w.S.size());
			memcpy(memBlock.get() + w.padA + w.S.size(), pb.data(), pb.size());
			Stream::MemoryReader whole(memBlock.get(), total);
			std::unique_ptr<Stream::MemoryReader> r;
			{ Armed arm; r = std::make_unique<Stream::MemoryReader>(whole.Slice(w.padA, w.S.size())); }
			a->kind = Kind::Mem; a->mem = r.get(); a->obj = std::move(r);
		} else {
			std::vector<uint8_t> content;
			uint64_t pa = (b == "file") ? 0 : w.padA, pb = (b == "file") ? 0 : w.padB;
			auto va = prngBytes(plan.seed ^ 0xaa, static_cast<size_t>(pa)), vb = prngBytes(plan.seed ^ 0xbb, static_cast<size_t>(pb));
			content.insert(content.end(), va.begin(), va.end());
			content.insert(content.end(), w.S.begin(), w.S.end());
			content.insert(content.end(), vb.begin(), vb.end());
			// how the source file is spelled: plainly, with "./", through a real directory and "..", absolutely, through a directory
			// SYMLINK and ".." (the textual "a/.." rule does not hold there; a decoy sits where that rule would lead), or by a file symlink
			std::string srcPath = "src.bin";
			switch (plan.envu("srcspell", 0) % 6) {
			case 1: disk::put("src.bin", content); srcPath = "./src.bin"; break;
			case 2: disk::put("src.bin", content); disk::mkdirs("_sd"); srcPath = "_sd/../src.bin"; break;
			case 3: disk::put("src.bin", content); srcPath = disk::scratchRoot() + "/src.bin"; break;
			case 4: {
				disk::put("_rd/src.bin", content); disk::mkdirs("_rd/inner");
				if (symlink("_rd/inner", "_ln") != 0) throw std::runtime_error("symlink failed");
				std::vector<uint8_t> decoy(content.size()); for (size_t q = 0; q < decoy.size(); ++q) decoy[q] = static_cast<uint8_t>(~content[q]);
				disk::put("src.bin", decoy);
				srcPath = "_ln/../src.bin";
				break;
			}
			case 5: disk::put("_real.bin", content); if (symlink("_real.bin", "src.bin") != 0) throw std::runtime_error("symlink failed"); break;
			default: disk::put("src.bin", content); break;
			}
			Armed arm;
			if (b == "file") {
				auto r = std::make_unique<Stream::FileReader>(srcPath);
				a->kind = Kind::File; a->file = r.get(); a->obj = std::move(r);
			} else if (b == "fileslice") {
				Stream::FileReader f(srcPath);
				auto r = std::make_unique<Stream::FileSliceReader>(f.Slice(pa, w.S.size()));
				a->kind = Kind::FSlice; a->fslice = r.get(); a->obj = std::move(r);
			} else if (b == "slice2") {
				Stream::FileReader f(srcPath);
				uint64_t h = pa / 2;
				Stream::FileSliceReader outer = f.Slice(h, (pa - h) + w.S.size() + pb / 2);
				auto r = std::make_unique<Stream::FileSliceReader>(outer.Slice(pa - h, w.S.size()));
				a->kind = Kind::FSlice; a->fslice = r.get(); a->obj = std::move(r); a->depth = 1;
			} else throw std::runtime_error("bad backend " + b);
		}
		add(std::move(a));
	}

	// ---- observation helpers ----
	void checkActor(Actor& a, bool acting, const char* what) {
		uint64_t p, l;
		{ Armed arm; p = a.obj->Position(); l = a.obj->Length(); }
		if (l != a.len) ctx.fail(acting ? cl("pos-le-len", a.root ? "backend-equal" : "confined") : cl("fail-atomic", "independent-position"),
		                         std::string(what) + ": actor length " + std::to_string(l) + ", model " + std::to_string(a.len));
		if (p != a.pos) ctx.fail(acting ? cl("read-advance", a.root ? "backend-equal" : "confined") : cl("fail-atomic", "independent-position"),
		                         std::string(what) + ": actor position " + std::to_string(p) + ", model " + std::to_string(a.pos));
	}
	void checkOthers(Actor* acting, const char* what) {
		for (auto& up : actors) if (up.get() != acting) checkActor(*up, false, what);
	}

	const uint8_t* srcAt(const Actor& a, uint64_t off) const { return w.S.data() + a.base + off; }

	enum Out { OkOut, ErrStd, ErrOther };
	template <class F> Out call(F&& f, std::string* what = nullptr) {
		scribbleStack(static_cast<unsigned char>(plan.envu("stack", 0x5a)));
		Armed arm;
		try { f(); return OkOut; }
		catch (const std::exception& e) { if (what) *what = e.what(); return ErrStd; }
		catch (...) { return ErrOther; }
	}

	void requireOutcome(Out got, bool modelOk, const std::string& clauseOk, const std::string& clauseRefuse, const std::string& desc, const std::string& what) {
		if (got == ErrOther) ctx.fail(modelOk ? clauseOk : clauseRefuse, desc + ": threw something that is not a std::exception");
		if (modelOk && got != OkOut) ctx.fail(clauseOk, desc + ": in-bounds operation refused (" + what + ")");
		if (!modelOk && got == OkOut) ctx.fail(clauseRefuse, desc + ": out-of-bounds operation succeeded");
	}

	// ---- ops ----
	void opRead(Actor& a, const Line& op, bool peek) {
		uint64_t rem = a.len - a.pos;
		uint64_t n = resolveArg(op.get("n", "~0"), rem + 2, a.pos);
		bool ok = n <= rem;
		if (a.kind == Kind::File && !ok) { ctx.event("skip"); return; }
		size_t bufN = static_cast<size_t>(ok ? n : rem);
		std::unique_ptr<char[]> buf(new char[bufN]);
		memset(buf.get(), 0xEE, bufN);
		std::string what;
		// fixed-size values go through the typed helpers half of the time (Peek(T&) / Read(T&) instead of the (pointer, size) forms)
		bool typed = (n == 1 || n == 2 || n == 4 || n == 8) && ((a.pos + n) & 1) == 0;
		Out o = call([&] {
			if (typed) {
				uint8_t v1 = 0; uint16_t v2 = 0; uint32_t v4 = 0; uint64_t v8 = 0;
				switch (n) {
				case 1: if (peek) a.obj->Peek(v1); else a.obj->Read(v1); if (bufN >= 1) memcpy(buf.get(), &v1, 1); break;
				case 2: if (peek) a.obj->Peek(v2); else a.obj->Read(v2); if (bufN >= 2) memcpy(buf.get(), &v2, 2); break;
				case 4: if (peek) a.obj->Peek(v4); else a.obj->Read(v4); if (bufN >= 4) memcpy(buf.get(), &v4, 4); break;
				default: if (peek) a.obj->Peek(v8); else a.obj->Read(v8); if (bufN >= 8) memcpy(buf.get(), &v8, 8); break;
				}
			} else if (peek) a.obj->Peek(buf.get(), static_cast<size_t>(n)); else a.obj->Read(buf.get(), static_cast<size_t>(n));
		}, &what);
		if (typed) ctx.count(peek ? "probe.typed_peek" : "probe.typed_read");
		std::string desc = std::string(peek ? "peek" : "read") + " n=" + std::to_string(n) + " at pos " + std::to_string(a.pos) + "/" + std::to_string(a.len);
		requireOutcome(o, ok, cl("outcome", a.root ? "backend-equal" : "confined"), "C12.outcome", desc, what);
		if (ok) {
			if (memcmp(buf.get(), srcAt(a, a.pos), bufN) != 0) ctx.fail(cl(peek ? "peek-pure" : "read-bytes", a.root ? "backend-equal" : "confined"), desc + ": delivered bytes differ from the source bytes at that position");
			if (!peek) { a.pos += n; if (n) moved = true; }
			if (n > rem / 2 && n) ctx.count("probe.read_large");
		} else {
			ctx.count("probe.refused_read");
			if (op.get("n", "")[0] == 'W' || n >= (1ull << 31)) ctx.count("probe.wrap_class_arg");
		}
		uint64_t p, l;
		{ Armed arm; p = a.obj->Position(); l = a.obj->Length(); }
		if (p > l) ctx.fail("C12.pos-le-len", desc + ": position " + std::to_string(p) + " exceeds length " + std::to_string(l));
		if (p != a.pos) ctx.fail(ok ? cl(peek ? "peek-pure" : "read-advance", a.root ? "backend-equal" : "confined") : "C12.fail-atomic",
		                         desc + ": position afterwards " + std::to_string(p) + ", expected " + std::to_string(a.pos));
		if (l != a.len) ctx.fail(ok ? cl("read-advance", "confined") : "C12.fail-atomic", desc + ": length changed to " + std::to_string(l));
		ctx.event(std::string(peek ? "peek " : "read ") + std::to_string(n) + (ok ? " ok " : " refused ") + std::to_string(a.pos) + " " + hex64(fnv1a(buf.get(), bufN)));
	}

	void opPartial(Actor& a, const Line& op) {
		uint64_t rem = a.len - a.pos;
		uint64_t n = resolveArg(op.get("n", "~0"), rem + 3, a.pos);
		if (a.kind == Kind::File && n > rem) { ctx.event("skip"); return; }
		uint64_t expect = n < rem ? n : rem;
		std::unique_ptr<char[]> buf(new char[static_cast<size_t>(expect)]);
		memset(buf.get(), 0xEE, static_cast<size_t>(expect));
		size_t got = 0;
		std::string what;
		Out o = call([&] { got = a.obj->ReadPartial(buf.get(), static_cast<size_t>(n)); }, &what);
		std::string desc = "partial n=" + std::to_string(n) + " at pos " + std::to_string(a.pos) + "/" + std::to_string(a.len);
		if (o != OkOut) ctx.fail(cl("partial-count", "confined"), desc + ": threw (" + what + ")");
		if (got != expect) ctx.fail(cl("partial-count", a.root ? "backend-equal" : "confined"), desc + ": delivered " + std::to_string(got) + ", expected min(requested, remaining) = " + std::to_string(expect));
		if (memcmp(buf.get(), srcAt(a, a.pos), static_cast<size_t>(expect)) != 0) ctx.fail(cl("read-bytes", a.root ? "backend-equal" : "confined"), desc + ": delivered bytes differ from the source");
		a.pos += expect;
		if (expect) moved = true;
		if (n > rem) ctx.count("probe.partial_crossing_end");
		uint64_t p;
		{ Armed arm; p = a.obj->Position(); }
		if (p != a.pos) ctx.fail(cl("partial-advance", a.root ? "backend-equal" : "confined"), desc + ": position afterwards " + std::to_string(p) + ", expected " + std::to_string(a.pos) + " (advance by the count delivered)");
		ctx.event("partial " + std::to_string(n) + " " + std::to_string(got) + " " + std::to_string(a.pos));
	}

	void opSeek(Actor& a, const Line& op) {
		const std::string& v = op.verb;
		uint64_t target = 0;
		bool ok = true;
		uint64_t arg = 0;
		if (v == "seek") { arg = resolveArg(op.get("p", "~0"), a.len + 2, a.pos); ok = arg <= a.len; target = arg; }
		else if (v == "fwd") { arg = resolveArg(op.get("d", "~0"), (a.len - a.pos) + 2, a.pos); ok = static_cast<u128>(a.pos) + arg <= a.len; target = a.pos + arg; }
		else if (v == "back") { arg = resolveArg(op.get("d", "~0"), a.pos + 2, a.pos); ok = arg <= a.pos; target = a.pos - arg; }
		else if (v == "begin") { target = 0; }
		else if (v == "end") { target = a.len; }
		if (a.kind == Kind::File && !ok) { ctx.event("skip"); return; }
		std::string what;
		Out o = call([&] {
			if (v == "seek") { if (arg == 0 && (a.pos & 1)) a.obj->SeekBeginning(); else a.obj->Seek(arg); } // SeekBeginning is Seek(0) by another door
			else if (v == "fwd") a.obj->SeekForward(arg);
			else if (v == "back") a.obj->SeekBackward(arg);
			else if (v == "begin") a.obj->SeekBeginning();
			else a.obj->SeekEnd();
		}, &what);
		std::string desc = v + " " + std::to_string(arg) + " at pos " + std::to_string(a.pos) + "/" + std::to_string(a.len);
		requireOutcome(o, ok, cl("outcome", a.root ? "backend-equal" : "confined"), "C12.outcome", desc, what);
		if (ok) { if (target != a.pos) moved = true; a.pos = target; }
		else {
			ctx.count("probe.refused_seek");
			if (arg >= (1ull << 31)) ctx.count("probe.wrap_class_arg");
		}
		uint64_t p, l;
		{ Armed arm; p = a.obj->Position(); l = a.obj->Length(); }
		if (p > l) ctx.fail("C12.pos-le-len", desc + ": position " + std::to_string(p) + " exceeds length " + std::to_string(l));
		if (p != a.pos) ctx.fail(ok ? cl("outcome", a.root ? "backend-equal" : "confined") : "C12.fail-atomic", desc + ": position afterwards " + std::to_string(p) + ", expected " + std::to_string(a.pos));
		ctx.event(v + " " + std::to_string(arg) + (ok ? " ok " : " refused ") + std::to_string(a.pos));
	}

	void opSlice(Actor& a, const Line& op, bool atPos) {
		uint64_t s, n;
		if (atPos) { s = a.pos; n = resolveArg(op.get("n", "~0"), (a.len - a.pos) + 2, a.pos); }
		else {
			s = resolveArg(op.get("s", "~0"), a.len + 2, a.pos);
			uint64_t room = s <= a.len ? a.len - s : 0;
			n = resolveArg(op.get("n", "~0"), room + 2, s);
		}
		bool ok = static_cast<u128>(s) + n <= a.len;
		if (actors.size() >= 10 && ok) { ctx.event("skip"); return; }
		auto na = std::make_unique<Actor>();
		std::string what;
		// fault: an open for reading fails inside this call (out of descriptors / file gone between two opens of one name)
		uint64_t firedBefore = g_fault.firedOpenFail;
		uint64_t tmpPos = 0, tmpLen = 0; bool tmpSeen = false;
		if (a.kind != Kind::Mem) g_fault.openFailCountdown = op.u("openfail", 0);
		Out o = call([&] {
			if (a.kind == Kind::Mem) {
				auto r = std::make_unique<Stream::MemoryReader>(atPos ? a.mem->Slice(n) : static_cast<const Stream::MemoryReader*>(a.mem)->Slice(s, n));
				na->kind = Kind::Mem; na->mem = r.get(); na->obj = std::move(r);
			} else if (a.kind == Kind::File) {
				// (the injected open failure applies to the library's call only, not to the harness's own copy onto the heap)
				Stream::FileSliceReader tmp = atPos ? a.file->Slice(n) : static_cast<const Stream::FileReader*>(a.file)->Slice(s, n);
				g_fault.openFailCountdown = 0;
				tmpPos = tmp.Position(); tmpLen = tmp.Length(); tmpSeen = true; // what the library returned, before the harness copies it
				auto r = std::make_unique<Stream::FileSliceReader>(tmp);
				na->kind = Kind::FSlice; na->fslice = r.get(); na->obj = std::move(r);
			} else {
				Stream::FileSliceReader tmp = atPos ? a.fslice->Slice(n) : static_cast<const Stream::FileSliceReader*>(a.fslice)->Slice(s, n);
				g_fault.openFailCountdown = 0;
				tmpPos = tmp.Position(); tmpLen = tmp.Length(); tmpSeen = true; // what the library returned, before the harness copies it
				auto r = std::make_unique<Stream::FileSliceReader>(tmp);
				na->kind = Kind::FSlice; na->fslice = r.get(); na->obj = std::move(r);
			}
		}, &what);
		g_fault.openFailCountdown = 0;
		std::string desc = std::string(atPos ? "slice-at-position" : "slice") + " s=" + std::to_string(s) + " n=" + std::to_string(n) + " of actor with length " + std::to_string(a.len) + " at pos " + std::to_string(a.pos);
		if (g_fault.firedOpenFail != firedBefore) {
			ctx.count("fault.open_failed_inside_slice_or_copy");
			desc += " (an open for reading failed inside the call)";
			if (o == ErrOther) ctx.fail("C13.create-refuse", desc + ": non-std exception");
			if (o != OkOut) {
				// refused with an ordinary error: the parent is as before
				uint64_t p0, l0;
				{ Armed arm; p0 = a.obj->Position(); l0 = a.obj->Length(); }
				if (p0 != a.pos || l0 != a.len) ctx.fail("C13.create-refuse", desc + ": refused, but the parent is now at " + std::to_string(p0) + "/" + std::to_string(l0) + ", expected " + std::to_string(a.pos) + "/" + std::to_string(a.len));
				ctx.event("slice refused by injected open failure");
				return;
			}
			// accepted: then the new reader is a working one, judged like any other below
		}
		requireOutcome(o, ok, "C13.create-refuse", "C13.create-refuse", desc, what);
		if (ok && o == OkOut && tmpSeen && (tmpPos != 0 || tmpLen != n)) ctx.fail(tmpPos > tmpLen && plan.property == "C12" ? "C12.pos-le-len" : "C13.confined", desc + ": the slice as returned reports position " + std::to_string(tmpPos) + " length " + std::to_string(tmpLen) + ", expected 0/" + std::to_string(n));
		if (!ok) {
			ctx.count("probe.slice_refused");
			if (static_cast<u128>(s) + n > static_cast<u128>(kMaxU)) ctx.count("probe.slice_wrap_refused");
		}
		if (ok && atPos) a.pos += n;
		// parent: unchanged on refusal / const form, advanced by n on successful at-position form
		uint64_t p, l;
		{ Armed arm; p = a.obj->Position(); l = a.obj->Length(); }
		if (p != a.pos || l != a.len) ctx.fail(atPos ? "C13.slice-at-pos-advance" : "C13.create-refuse", desc + ": parent now at " + std::to_string(p) + "/" + std::to_string(l) + ", expected " + std::to_string(a.pos) + "/" + std::to_string(a.len));
		if (ok) {
			na->base = a.base + s;
			na->len = n;
			na->pos = 0;
			na->depth = a.depth + 1;
			if (na->depth >= 3) ctx.count("probe.nested_depth_ge3");
			if (n == 0) ctx.count("probe.zero_length_slice");
			uint64_t cp, clen;
			{ Armed arm; cp = na->obj->Position(); clen = na->obj->Length(); }
			if (cp != 0 || clen != n) ctx.fail(cp > clen && plan.property == "C12" ? "C12.pos-le-len" : "C13.confined", desc + ": new slice reports position " + std::to_string(cp) + " length " + std::to_string(clen) + ", expected 0/" + std::to_string(n));
			add(std::move(na));
			moved = true;
		}
		ctx.event(std::string(atPos ? "slicepos " : "slice ") + std::to_string(s) + " " + std::to_string(n) + (ok ? " ok" : " refused"));
	}

	void opCopy(Actor& a, const Line& op) {
		if (actors.size() >= 10) { ctx.event("skip"); return; }
		auto na = std::make_unique<Actor>();
		std::string what;
		uint64_t firedBefore = g_fault.firedOpenFail;
		if (a.kind != Kind::Mem) g_fault.openFailCountdown = op.u("openfail", 0);
		Out o = call([&] {
			if (a.kind == Kind::Mem) { auto r = std::make_unique<Stream::MemoryReader>(*a.mem); na->kind = Kind::Mem; na->mem = r.get(); na->obj = std::move(r); }
			else if (a.kind == Kind::File) { auto r = std::make_unique<Stream::FileReader>(*a.file); na->kind = Kind::File; na->file = r.get(); na->obj = std::move(r); }
			else { auto r = std::make_unique<Stream::FileSliceReader>(*a.fslice); na->kind = Kind::FSlice; na->fslice = r.get(); na->obj = std::move(r); }
		}, &what);
		g_fault.openFailCountdown = 0;
		if (g_fault.firedOpenFail != firedBefore) {
			ctx.count("fault.open_failed_inside_slice_or_copy");
			if (o == ErrOther) ctx.fail("C13.independent-position", "copying a live reader while an open failed: non-std exception");
			if (o != OkOut) { ctx.event("copy refused by injected open failure"); return; }
		}
		if (o != OkOut) ctx.fail("C13.independent-position", "copying a live reader threw: " + what);
		na->base = a.base; na->len = a.len; na->depth = a.depth; na->root = a.root;
		uint64_t cp, clen;
		{ Armed arm; cp = na->obj->Position(); clen = na->obj->Length(); }
		// The starting position of a copy is not specified by the property: adopt it, bounded by the length.
		if (clen != a.len || cp > clen) ctx.fail(cp > clen && plan.property == "C12" ? "C12.pos-le-len" : "C13.confined", "copy reports position " + std::to_string(cp) + " length " + std::to_string(clen) + ", original length " + std::to_string(a.len));
		na->pos = cp;
		add(std::move(na));
		moved = true;
		ctx.event("copy " + std::to_string(cp));
	}

	// ---- typed helpers (C12) ----
	template <class T> void typedFixed(Actor& a) {
		uint64_t rem = a.len - a.pos;
		bool ok = sizeof(T) <= rem;
		if (a.kind == Kind::File && !ok) return;
		T v{};
		std::string what;
		Out o = call([&] { a.obj->Read(v); }, &what);
		std::string desc = "typed fixed-size read of " + std::to_string(sizeof(T)) + " bytes at pos " + std::to_string(a.pos) + "/" + std::to_string(a.len);
		requireOutcome(o, ok, "C12.typed-size", "C12.typed-refuse", desc, what);
		if (ok) {
			T want;
			memcpy(&want, srcAt(a, a.pos), sizeof(T));
			if (memcmp(&want, &v, sizeof(T)) != 0) ctx.fail("C12.typed-size", desc + ": wrong value");
			a.pos += sizeof(T);
			moved = true;
		}
		uint64_t p;
		{ Armed arm; p = a.obj->Position(); }
		if (p != a.pos) ctx.fail(ok ? "C12.typed-size" : "C12.fail-atomic", desc + ": position afterwards " + std::to_string(p) + ", expected " + std::to_string(a.pos));
	}

	// after a refused typed helper the position is unspecified: adopt it (bounded)
	void resync(Actor& a, const std::string& desc, uint64_t maxAdvance) {
		uint64_t p, l;
		{ Armed arm; p = a.obj->Position(); l = a.obj->Length(); }
		if (l != a.len || p > l) ctx.fail("C12.pos-le-len", desc + ": after refusal position " + std::to_string(p) + " length " + std::to_string(l));
		if (p < a.pos || p - a.pos > maxAdvance) ctx.fail("C12.typed-refuse", desc + ": after refusal position " + std::to_string(p) + " is outside [" + std::to_string(a.pos) + ", +" + std::to_string(maxAdvance) + "]");
		a.pos = p;
	}

	template <class SizeT, class Cont> void typedPrefixed(Actor& a, const char* name) {
		uint64_t rem = a.len - a.pos;
		typedef typename Cont::value_type E;
		bool ok = false;
		uint64_t count = 0;
		if (sizeof(SizeT) <= rem) {
			SizeT raw;
			memcpy(&raw, srcAt(a, a.pos), sizeof raw);
			bool neg = std::is_signed<SizeT>::value && raw < 0;
			if (!neg) {
				count = static_cast<uint64_t>(raw);
				u128 need = static_cast<u128>(count) * sizeof(E);
				ok = need <= rem - sizeof(SizeT);
			} else ctx.count("probe.negative_prefix");
		}
		if (a.kind == Kind::File && !ok) return;
		Cont c;
		c.resize(3); // stale content that must not survive
		std::string what;
		Out o = call([&] { a.obj->template Read<SizeT>(c); }, &what);
		std::string desc = std::string("size-prefixed read ") + name + " at pos " + std::to_string(a.pos) + "/" + std::to_string(a.len);
		requireOutcome(o, ok, "C12.typed-size", "C12.typed-refuse", desc, what);
		if (ok) {
			if (c.size() != count) ctx.fail("C12.typed-size", desc + ": container has " + std::to_string(c.size()) + " elements, prefix says " + std::to_string(count));
			if (count && memcmp(c.data(), srcAt(a, a.pos + sizeof(SizeT)), static_cast<size_t>(count * sizeof(E))) != 0) ctx.fail("C12.typed-size", desc + ": wrong content");
			a.pos += sizeof(SizeT) + count * sizeof(E);
			moved = true;
			ctx.count("probe.prefixed_read_ok");
			uint64_t p;
			{ Armed arm; p = a.obj->Position(); }
			if (p != a.pos) ctx.fail("C12.typed-size", desc + ": consumed " + std::to_string(p) + " - start, expected exactly prefix + payload = position " + std::to_string(a.pos));
		} else {
			ctx.count("probe.prefixed_read_refused");
			resync(a, desc, rem);
		}
	}

	void typedCstr(Actor& a, const Line& op) {
		uint64_t rem = a.len - a.pos;
		std::string mt = op.get("max", "max");
		uint64_t maxc = mt == "max" ? SIZE_MAX : resolveArg(mt, rem + 3, a.pos);
		// model
		uint64_t j = 0;
		bool foundNul = false;
		while (j < rem && j < maxc) { if (*srcAt(a, a.pos + j) == 0) { foundNul = true; break; } ++j; }
		bool ok = foundNul || (j == maxc);
		uint64_t consumed = foundNul ? j + 1 : j;
		if (a.kind == Kind::File && !ok) return;
		std::string got, what;
		Out o = call([&] { got = maxc == SIZE_MAX ? a.obj->ReadNullTerminatedString() : a.obj->ReadNullTerminatedString(static_cast<size_t>(maxc)); }, &what); // default argument = unbounded
		if (maxc == SIZE_MAX) ctx.count("probe.cstr_default_bound");
		std::string desc = "NUL-terminated read max=" + std::to_string(maxc) + " at pos " + std::to_string(a.pos) + "/" + std::to_string(a.len);
		requireOutcome(o, ok, cl("typed-size", "backend-equal"), cl("typed-refuse", "backend-equal"), desc, what);
		if (ok) {
			if (got.size() != j || memcmp(got.data(), srcAt(a, a.pos), static_cast<size_t>(j)) != 0) ctx.fail(cl("typed-size", "backend-equal"), desc + ": wrong string (length " + std::to_string(got.size()) + ", expected " + std::to_string(j) + ")");
			a.pos += consumed;
			if (consumed) moved = true;
			uint64_t p;
			{ Armed arm; p = a.obj->Position(); }
			if (p != a.pos) ctx.fail(cl("typed-size", "backend-equal"), desc + ": position afterwards " + std::to_string(p) + ", expected " + std::to_string(a.pos));
			ctx.count("probe.cstr_ok");
		} else resync(a, desc, rem);
	}

	// The NUL-terminated string helper of the reader base class with a second call of the same helper (on another reader, other
	// bytes) interleaved at one of its stream callbacks: both strings must be right. Uses the stub reader because only its
	// callbacks are interleaving points; the helper itself is the library's.
	void typedCstrInterleaved(Actor& a, const Line& op) {
		uint64_t rem = a.len - a.pos;
		if (rem < 4) { ctx.event("skip"); return; }
		size_t n1 = static_cast<size_t>(1 + mix64(plan.seed, a.pos) % std::min<uint64_t>(rem - 1, 300));
		std::vector<uint8_t> s1(srcAt(a, a.pos), srcAt(a, a.pos) + n1), s2(n1 / 2 + 3);
		for (auto& c : s1) if (c == 0) c = 1;
		for (size_t q = 0; q < s2.size(); ++q) s2[q] = static_cast<uint8_t>(1 + (s1[q % s1.size()] * 7 + q) % 250);
		s1.push_back(0); s2.push_back(0);
		SimReader outer(s1);
		std::string inner, got, what;
		bool ran = false;
		outer.interleaveAtCall = 1 + mix64(plan.seed, op.u("a", 0) + n1) % n1;
		outer.interleaveBefore = (mix64(plan.seed, n1) & 1) != 0;
		outer.interleave = [&] { Stream::MemoryReader r2(s2.data(), s2.size()); inner = r2.ReadNullTerminatedString(); ran = true; };
		Out o = call([&] { got = outer.ReadNullTerminatedString(); }, &what);
		std::string desc = "NUL-terminated read of " + std::to_string(n1) + " characters with a second such read interleaved at stream callback " + std::to_string(outer.interleaveAtCall);
		if (o != OkOut || !outer.interleaveError.empty()) ctx.fail("C12.typed-size", desc + ": failed (" + what + outer.interleaveError + ")");
		if (got.size() != n1 || memcmp(got.data(), s1.data(), n1) != 0) ctx.fail("C12.typed-size", desc + ": the interrupted read returned a wrong string (length " + std::to_string(got.size()) + ")");
		if (ran && (inner.size() + 1 != s2.size() || memcmp(inner.data(), s2.data(), inner.size()) != 0)) ctx.fail("C12.typed-size", desc + ": the interleaved read returned a wrong string");
		if (outer.Position() != n1 + 1) ctx.fail("C12.typed-size", desc + ": consumed " + std::to_string(outer.Position()) + " bytes instead of " + std::to_string(n1 + 1));
		if (ran) ctx.count("probe.second_operation_interleaved");
	}

	template <class Cont> void typedSized(Actor& a, const Line& op, const char* name) {
		typedef typename Cont::value_type E;
		uint64_t rem = a.len - a.pos;
		uint64_t n = resolveArg(op.get("n", "~0"), rem / sizeof(E) + 2, a.pos);
		if (n > 100000) n = 100000;
		bool ok = n * sizeof(E) <= rem;
		if (a.kind == Kind::File && !ok) return;
		Cont c;
		c.resize(static_cast<size_t>(n));
		std::string what;
		Out o = call([&] { a.obj->Read(c); }, &what);
		std::string desc = std::string("pre-sized container read ") + name + " n=" + std::to_string(n) + " at pos " + std::to_string(a.pos) + "/" + std::to_string(a.len);
		requireOutcome(o, ok, "C12.typed-size", "C12.typed-refuse", desc, what);
		if (ok) {
			if (n && memcmp(c.data(), srcAt(a, a.pos), static_cast<size_t>(n * sizeof(E))) != 0) ctx.fail("C12.typed-size", desc + ": wrong content");
			a.pos += n * sizeof(E);
			if (n) moved = true;
		}
		uint64_t p;
		{ Armed arm; p = a.obj->Position(); }
		if (p != a.pos) ctx.fail(ok ? "C12.typed-size" : "C12.fail-atomic", desc + ": position afterwards " + std::to_string(p) + ", expected " + std::to_string(a.pos));
	}

	template <class SizeT> void typedPrefixedElem(Actor& a, const std::string& elem, const char* st) {
		std::string nm = std::string(st) + "/" + elem;
		if (elem == "4") typedPrefixed<SizeT, std::vector<uint32_t>>(a, nm.c_str());
		else if (elem == "s") { if (a.pos & 1) typedPrefixed<SizeT, std::u16string>(a, (nm + "16").c_str()); else typedPrefixed<SizeT, std::string>(a, nm.c_str()); }
		else typedPrefixed<SizeT, std::vector<uint8_t>>(a, nm.c_str());
	}

	void opTyped(Actor& a, const Line& op) {
		std::string what = op.get("what", "fix");
		if (what == "fix") {
			uint64_t sz = op.u("sz", 1);
			if (sz == 1) typedFixed<uint8_t>(a); else if (sz == 2) typedFixed<uint16_t>(a); else if (sz == 4) typedFixed<uint32_t>(a); else typedFixed<uint64_t>(a);
		} else if (what == "vec16") {
			// the pre-sized container helper is a template: element types of 2, 4 and 8 bytes
			switch (a.pos % 3) { case 0: typedSized<std::vector<uint16_t>>(a, op, "vector<u16>"); break; case 1: typedSized<std::vector<uint32_t>>(a, op, "vector<u32>"); break; default: typedSized<std::vector<uint64_t>>(a, op, "vector<u64>"); break; }
		} else if (what == "str") {
			// ... and so is the string helper: narrow and wide character types
			switch (a.pos % 4) { case 0: case 1: typedSized<std::string>(a, op, "string"); break; case 2: typedSized<std::u16string>(a, op, "u16string"); break; default: typedSized<std::u32string>(a, op, "u32string"); break; }
		}
		else if (what == "cstr") { if (!c13 && (a.pos % 5) == 0) typedCstrInterleaved(a, op); else typedCstr(a, op); }
		else if (what == "pfx") {
			std::string st = op.get("st", "u8"), elem = op.get("elem", "1");
			if (st == "u8") typedPrefixedElem<uint8_t>(a, elem, "u8");
			else if (st == "i8") typedPrefixedElem<int8_t>(a, elem, "i8");
			else if (st == "u16") typedPrefixedElem<uint16_t>(a, elem, "u16");
			else if (st == "i16") typedPrefixedElem<int16_t>(a, elem, "i16");
			else if (st == "u32") typedPrefixedElem<uint32_t>(a, elem, "u32");
			else if (st == "i32") typedPrefixedElem<int32_t>(a, elem, "i32");
			else if (st == "u64") typedPrefixedElem<uint64_t>(a, elem, "u64");
			else typedPrefixedElem<int64_t>(a, elem, "i64");
		} else throw std::runtime_error("bad typed op " + what);
		ctx.event("typed " + what + " " + std::to_string(a.pos));
	}

	void opSeekRec(Actor& a, const Line& op) {
		if (w.recs.empty()) { ctx.event("skip"); return; }
		const Rec& r = w.recs[op.u("r", 0) % w.recs.size()];
		if (r.off < a.base || r.off - a.base > a.len) { ctx.event("skip"); return; }
		uint64_t p = r.off - a.base;
		std::string what;
		Out o = call([&] { a.obj->Seek(p); }, &what);
		if (o != OkOut) ctx.fail(cl("outcome", "confined"), "seek to in-bounds offset " + std::to_string(p) + " refused: " + what);
		if (p != a.pos) moved = true;
		a.pos = p;
		ctx.event("seekrec " + std::to_string(p));
	}

	void run() {
		buildWorld();
		spawnRoot();
		{
			Actor& r = *actors[0];
			uint64_t p, l;
			{ Armed arm; p = r.obj->Position(); l = r.obj->Length(); }
			if (p != 0 || l != r.len) ctx.fail(cl("pos-le-len", "backend-equal"), "fresh reader over " + std::to_string(r.len) + " bytes reports position " + std::to_string(p) + " length " + std::to_string(l) + " (backend " + w.backend + ")");
		}
		if (w.S.empty()) ctx.count("probe.zero_length_stream");
		for (size_t i = 0; i < plan.ops.size(); ++i) {
			const Line& op = plan.ops[i];
			ctx.setOp(i);
			if (actors.empty()) { ctx.event("noactor"); continue; }
			size_t ai = static_cast<size_t>(op.u("a", 0) % actors.size());
			Actor& a = *actors[ai];
			ctx.schedNote(op.verb + std::to_string(ai));
			const std::string& v = op.verb;
			if (v == "read") opRead(a, op, false);
			else if (v == "peek") opRead(a, op, true);
			else if (v == "partial") opPartial(a, op);
			else if (v == "seek" || v == "fwd" || v == "back" || v == "begin" || v == "end") opSeek(a, op);
			else if (v == "slice") opSlice(a, op, false);
			else if (v == "slicepos") opSlice(a, op, true);
			else if (v == "copy") opCopy(a, op);
			else if (v == "typed") opTyped(a, op);
			else if (v == "seekrec") opSeekRec(a, op);
			else if (v == "drop") {
				if (actors.size() > 1) { Armed arm; actors.erase(actors.begin() + static_cast<long>(ai)); ctx.event("drop"); }
				else ctx.event("skip");
			} else throw std::runtime_error("unknown op " + v);
			checkOthers(nullptr, "after step");
		}
		ctx.nontrivial = moved;
		ctx.count("library_calls", plan.ops.size());
		if (actors.size() >= 4) ctx.count("probe.four_or_more_live_actors");
		{ Armed arm; actors.clear(); }
	}
};

// ---------------------------------------------------------------------------------------------
// generation

std::string argTok(Rng& r, bool allowBoundary, int oobPercent) {
	// mostly relative in-bounds-ish values, sometimes boundary constants and wrap classes
	if (allowBoundary && r.chance(static_cast<uint64_t>(oobPercent), 100)) {
		static const char* B[] = {"0x7fffffff", "0x80000000", "0xffffffff", "0x100000000", "0x7fffffffffffffff", "0x8000000000000000", "0xffffffffffffffff", "0xfffffffffffffffe", "W+0", "W+1", "W+2", "W+5"};
		return B[r.below(sizeof B / sizeof B[0])];
	}
	uint64_t k;
	switch (r.below(6)) {
	case 0: k = 0; break;
	case 1: k = 1; break;
	case 2: k = r.below(8); break;
	default: k = r.below(100000); break;
	}
	return "~" + std::to_string(k);
}

struct StreamActors : Family {
	std::string name() const override { return "stream-actors"; }

	Plan generate(const std::string& prop, Rng& r, bool thorough) override {
		Plan p;
		bool c13 = prop == "C13";
		uint64_t len;
		switch (r.below(8)) {
		case 0: len = r.below(3); break;
		case 1: // on or next to a power of two / a multiple of 4096 or 8192 (stream buffers), else tiny
			if (r.chance(1, 4)) { uint64_t base = r.chance(1, 3) ? (r.chance(1, 2) ? 4096 : 8192) * r.range(1, 4) : 1ull << r.range(8, thorough ? 16 : 14); len = base + r.below(3) - 1; }
			else len = r.below(17);
			break;
		case 2: len = r.chance(1, thorough ? 4 : 10) ? r.range(4000, thorough ? 70000 : 20000) : r.range(100, 600); break;
		default: len = r.below(301); break;
		}
		static const char* B12[] = {"mem", "mem", "memslice", "fileslice", "slice2"};
		static const char* B13[] = {"mem", "file", "memslice", "fileslice", "slice2", "file", "fileslice"};
		p.setenv("backend", c13 ? B13[r.below(7)] : B12[r.below(5)]);
		p.setenv("srcspell", r.below(6));
		p.setenv("pad_a", r.below(40));
		p.setenv("pad_b", r.below(40));
		p.setenv("heap", r.below(256));
		p.setenv("stack", r.below(256));
		p.setenv("shift", r.chance(1, 2) ? 0 : r.below(5000));
		static const uint64_t SR[] = {1, 3, 7, 64, 1000, 4096};
		p.setenv("short_read", r.chance(1, 2) ? 0 : SR[r.below(6)]);
		p.setenv("eintr", r.chance(2, 3) ? 0 : r.range(2, 5));
		p.setenv("memcap", 16 << 20);
		Line src = mkline("world", "src");
		src.set("cseed", hex64(r.next())).set("len", len);
		if (!c13 && len > 3000 && r.chance(1, 2)) src.set("nonul", r.chance(1, 2) ? 1000000 : 5000 + r.below(6000));
		p.world.push_back(src);
		static const char* PF[] = {"u8", "i8", "u16", "i16", "u32", "i32", "u64", "i64"};
		size_t nrec = c13 ? 0 : r.below(5);
		std::vector<std::pair<std::string, std::string>> recKinds;
		for (size_t i = 0; i < nrec; ++i) {
			Line rec = mkline("world", "rec");
			std::string pf = PF[r.below(8)];
			uint64_t off = len ? r.below(len) : 0;
			uint64_t val;
			switch (r.below(6)) {
			case 0: val = 0; break;
			case 1: val = r.below(6); break;
			case 2: val = len ? r.below(len) : 0; break;      // often satisfiable
			case 3: val = ~0ull - r.below(3); break;           // negative for signed / huge for unsigned
			case 4: val = 1ull << r.range(7, 63); break;       // sign bits of the narrower types
			default: val = r.next(); break;
			}
			std::string el = r.pick(std::vector<std::string>{"1", "4", "s"});
			rec.set("off", off).set("pfx", pf).set("elem", el).set("val", hex64(val));
			recKinds.emplace_back(pf, el);
			p.world.push_back(rec);
		}
		size_t nops = static_cast<size_t>(r.range(8, thorough ? 80 : 50));
		int oob = c13 ? 8 : 25;
		// C12: build a chain of slices first so that the acting reader is a (nested) slice in most runs
		size_t chain = c13 ? r.range(1, 4) : r.below(4);
		for (size_t i = 0; i < chain; ++i) {
			Line op = mkline("op", r.chance(1, 4) ? "slicepos" : "slice");
			op.set("a", c13 ? r.below(8) : i);
			if (op.verb == "slice") op.set("s", argTok(r, false, 0));
			op.set("n", r.chance(1, 6) ? argTok(r, true, 50) : "~" + std::to_string(r.below(100000)));
			if (i > 0 && r.chance(1, 8)) op.set("openfail", 1 + r.below(2));
			p.ops.push_back(op);
		}
		for (size_t i = 0; i < nops; ++i) {
			Line op;
			uint64_t a = c13 ? r.below(8) : (r.chance(4, 5) ? chain : r.below(chain + 1));
			uint64_t k = r.below(100);
			if (k < 22) { op = mkline("op", "read"); op.set("a", a).set("n", argTok(r, true, oob)); }
			else if (k < 36) { op = mkline("op", "partial"); op.set("a", a).set("n", argTok(r, true, oob)); }
			else if (k < 44) { op = mkline("op", "peek"); op.set("a", a).set("n", argTok(r, true, oob)); }
			else if (k < 54) { op = mkline("op", "seek"); op.set("a", a).set("p", argTok(r, true, oob)); }
			else if (k < 62) { op = mkline("op", "fwd"); op.set("a", a).set("d", argTok(r, true, oob)); }
			else if (k < 70) { op = mkline("op", "back"); op.set("a", a).set("d", argTok(r, true, oob)); }
			else if (k < 73) { op = mkline("op", "begin"); op.set("a", a); }
			else if (k < 76) { op = mkline("op", "end"); op.set("a", a); }
			else if (k < (c13 ? 86u : 79u)) { op = mkline("op", "slice"); op.set("a", a).set("s", argTok(r, true, 20)).set("n", argTok(r, true, 25)); if (r.chance(1, 6)) op.set("openfail", 1 + r.below(2)); }
			else if (k < (c13 ? 91u : 81u)) { op = mkline("op", "slicepos"); op.set("a", a).set("n", argTok(r, true, 25)); if (r.chance(1, 4)) op.set("openfail", 1 + r.below(2)); }
			else if (k < (c13 ? 95u : 82u)) { op = mkline("op", "copy"); op.set("a", a); if (r.chance(1, 5)) op.set("openfail", 1 + r.below(2)); }
			else if (k < (c13 ? 98u : 83u)) { op = mkline("op", "drop"); op.set("a", a); }
			else if (c13) {
				// in-bounds reads; half of them through the NUL-terminated string helper (the same bytes, positions and lengths must
				// come out on every backend, a bare file reader included)
				if (r.chance(1, 2)) { op = mkline("op", "typed"); op.set("a", a).set("what", "cstr").set("max", r.chance(1, 3) ? std::string("max") : argTok(r, false, 0)); }
				else { op = mkline("op", "read"); op.set("a", a).set("n", argTok(r, false, 0)); }
			}
			else {
				// typed helpers, often preceded by a seek to a planted record
				op = mkline("op", "typed");
				op.set("a", a);
				if (nrec && r.chance(1, 2)) {
					uint64_t ri = r.below(nrec);
					Line sr = mkline("op", "seekrec");
					sr.set("a", a).set("r", ri);
					p.ops.push_back(sr);
					op.set("what", "pfx").set("st", recKinds[ri].first).set("elem", recKinds[ri].second);
					p.ops.push_back(op);
					continue;
				}
				switch (r.below(6)) {
				case 0: op.set("what", "fix").set("sz", 1ull << r.below(4)); break;
				case 1: op.set("what", "vec16").set("n", argTok(r, false, 0)); break;
				case 2: op.set("what", "str").set("n", argTok(r, false, 0)); break;
				case 3: op.set("what", "cstr").set("max", r.chance(1, 2) ? "max" : argTok(r, true, 15)); break;
				default: op.set("what", "pfx").set("st", PF[r.below(8)]).set("elem", r.pick(std::vector<std::string>{"1", "4", "s"})); break;
				}
			}
			p.ops.push_back(op);
		}
		return p;
	}

	void execute(const Plan& plan, RunCtx& ctx) override {
		Exec e(ctx, plan);
		e.run();
	}

	std::string signatureDetail(const Plan& p, const Violation& v) override {
		if (v.opIndex < p.ops.size()) return p.ops[v.opIndex].verb + "/" + p.envs("backend", "mem");
		return p.envs("backend", "mem");
	}
};

FamilyRegistrar regStreamActors(new StreamActors);

} // namespace
} // namespace sim

// Families "vol-roundtrip" (C01: pack -> reopen -> list/stream/extract vs an in-memory file-set model,
// refusal worlds with disk snapshots; C02: the durable bytes parsed by the independent VOL decoder) and
// "vol-foreign" (C02: archives emitted by the independent encoder opened with the library).
#include "volworld.h"
#include "Archive/VolFile.h"
#include <algorithm>
#include <memory>
#include <stdexcept>
#include <unistd.h>

using namespace OP2Utility;

namespace sim {
namespace {

uint64_t pickSize(Rng& r, bool thorough) {
	switch (r.below(thorough ? 14 : 12)) {
	case 0: return 0;
	case 1: return 1 + r.below(4);
	case 2: return 5 + r.below(4);
	case 3: case 4: case 5: return r.below(64);
	case 6: case 7: case 8: case 9: return r.below(5000);
	case 10: { if (r.chance(1, 2)) return r.below(64); uint64_t b = boundarySize(r, thorough ? 17 : 15), h = r.chance(2, 3) ? 0 : r.chance(1, 2) ? 8 : 4; return b > h ? b - h : b; } // - 8: block header + payload on a boundary
	case 11: return r.chance(1, 6) ? 131071 + r.below(3) : r.below(300);
	case 12: return 131071 + r.below(3);
	default: return r.chance(1, 2) ? 262143 : 262145;
	}
}

std::string spell(const std::string& dir, const std::string& name, uint64_t sp) {
	if (dir.empty()) return (sp % 6 == 5) ? disk::scratchRoot() + "/" + name : (sp % 2) ? "./" + name : name;
	switch (sp % 6) {
	case 0: return dir + "/" + name;
	case 1: return "./" + dir + "/" + name;
	case 2: return dir + "//" + name;
	case 3: return dir + "/./" + name;
	case 4: return dir + "/_s/../" + name;
	default: return disk::scratchRoot() + "/" + dir + "/" + name; // absolute
	}
}

std::string upperStr(std::string s) { for (auto& c : s) if (c >= 'a' && c <= 'z') c = static_cast<char>(c - 32); return s; }

// input directories of different spelled lengths and depths (a comparison that mixes up path and file name lengths shows)
std::string dirName(uint64_t k) {
	static const char* D[] = {"_d0", "_dir_number_one", "_d2/_nested/_deeper"};
	return D[k % 3];
}

struct VolRoundtrip : Family {
	std::string name() const override { return "vol-roundtrip"; }

	Plan generate(const std::string& prop, Rng& r, bool thorough) override {
		Plan p;
		bool c02 = prop == "C02";
		size_t nf;
		switch (r.below(6)) { case 0: nf = 0; break; case 1: nf = 1; break; case 2: nf = r.chance(1, thorough ? 3 : 8) ? r.range(13, 40) : r.range(2, 12); break; default: nf = r.range(1, 8); break; }
		size_t ndirs = static_cast<size_t>(r.range(1, 3));
		std::vector<std::string> names;
		bool bigSeen = false;
		for (size_t i = 0; i < nf; ++i) {
			std::string nm;
			for (int tries = 0; tries < 50; ++tries) {
				nm = randName(r, 1, r.chance(1, 5) ? 30 : 12, true);
				// related names stress the ordering: reuse a prefix of an earlier name
				if (!names.empty() && r.chance(1, 3)) { const std::string& o = names[r.below(names.size())]; nm = o.substr(0, 1 + r.below(o.size())) + (r.chance(1, 2) ? "" : randName(r, 1, 3, true)); }
				// near-equal names: same spelling except for characters 0x20 apart that are not a letter's two cases
				if (!names.empty() && r.chance(1, 4)) { std::string sib = bit5Sibling(names[r.below(names.size())], r); if (!sib.empty()) nm = sib; }
				else if (r.chance(1, 6)) { static const char* P[] = {"[", "{", "@", "`", "^", "~", "]", "}"}; nm.insert(r.below(nm.size() + 1), P[r.below(8)]); }
				if (!names.empty() && r.chance(1, 6)) nm = tieProneSibling(names[r.below(names.size())], r);
				if (r.chance(1, 8)) nm = digestTwin(names, r, 40); // different names with one 32-bit digest
				if (!nm.empty() && nm[0] == '_') nm[0] = '^'; // harness-owned paths start with '_'
				bool clash = false;
				for (auto& o : names) if (ref::nameEqualNoCase(o, nm)) clash = true;
				if (!clash) break;
				nm.clear();
			}
			if (nm.empty()) continue;
			names.push_back(nm);
			Line f = mkline("world", "file");
			uint64_t sz = pickSize(r, thorough);
			if (sz > 100000) { if (bigSeen && !thorough) sz = r.below(5000); bigSeen = true; }
			f.set("dir", r.chance(1, 6) ? std::string("-") : dirName(r.below(ndirs))).set("name", quoteToken(nm)).set("cseed", hex64(r.next())).set("len", sz).set("sp", r.below(6));
			if (r.chance(1, 10)) f.set("link", 1); // the listed path is a symbolic link to the file holding the bytes
			p.world.push_back(f);
		}
		// payloads with structure (zero runs aligned to powers of two, repeats): some members get one, and now and then the member that sorts
		// last is a power-of-two multiple ending in (or made of) zeros - where a copy loop that treats zero blocks specially ends the archive
		for (auto& l : p.world) if (l.verb == "file" && r.chance(1, 12)) l.set("pat", 1 + r.below(6));
		if (r.chance(1, 25)) {
			uint64_t k = r.range(12, thorough ? 21 : 20), m = r.range(1, 2);
			Line f = mkline("world", "file");
			std::string nm = std::string("~~zz") + std::to_string(r.below(10));
			bool clash = false; for (auto& o : names) if (ref::nameEqualNoCase(o, nm)) clash = true;
			if (!clash) {
				names.push_back(nm);
				f.set("dir", dirName(r.below(ndirs))).set("name", quoteToken(nm)).set("cseed", hex64(r.next())).set("len", m << k).set("sp", r.below(6)).set("pat", m == 1 ? 1 : 2);
				p.world.push_back(f);
				if ((m << k) > 100000) bigSeen = true;
			}
		}
		// pack order: a permutation of the files
		for (size_t i = p.world.size(); i > 1; --i) std::swap(p.world[i - 1], p.world[r.below(i)]);
		swarmEnv(p, r, true, true, bigSeen);
		std::string out = r.chance(1, 3) ? "_out.vol" : r.chance(1, 2) ? "_o/Archive.VOL" : "./_packed.vol";
		uint64_t mode = c02 ? 0 : r.below(9); // 0..5 plain, 6 duplicate names, 7 output names an input, 8 an input with the output's file name elsewhere
		if (mode == 6 && !names.empty()) {
			// a second input whose name differs from an existing one only in letter case, in another directory
			const std::string& o = names[r.below(names.size())];
			std::string v = caseVariant(o, 1 + r.below(3));
			Line f = mkline("world", "file");
			f.set("dir", "_dx").set("name", quoteToken(v)).set("cseed", hex64(r.next())).set("len", r.below(100)).set("sp", 0);
			p.world.insert(p.world.begin() + static_cast<long>(r.below(p.world.size() + 1)), f);
		}
		if (mode == 8) {
			// an input that merely shares the output's file name (another directory, possibly another letter case): NOT the output
			std::string base = out.substr(out.rfind('/') == std::string::npos ? 0 : out.rfind('/') + 1);
			bool clash = false;
			for (auto& o : names) if (ref::nameEqualNoCase(o, base)) clash = true;
			if (!clash) {
				Line f = mkline("world", "file");
				f.set("dir", "_dz").set("name", quoteToken(r.chance(1, 2) ? base : upperStr(base))).set("cseed", hex64(r.next())).set("len", r.below(300)).set("sp", r.below(6));
				p.world.push_back(f);
			}
		}
		Line create = mkline("op", "create");
		if (mode == 7 && !names.empty()) {
			// output path = one of the inputs up to letter case and a leading "./" (input lives in the scratch root)
			Line& f = p.world[r.below(p.world.size())];
			f.set("dir", "-");
			std::string nm = unquoteToken(f.get("name"));
			f.set("sp", r.below(2));
			std::string o = r.chance(1, 2) ? nm : upperStr(nm);
			if (r.chance(1, 2)) o = "./" + o;
			out = o;
			create.set("selfinclude", 1);
		}
		if (r.chance(1, 3)) { Line s = mkline("world", "sentinel"); s.set("path", quoteToken(out)).set("cseed", hex64(r.next())).set("len", r.below(200)); if (mode != 7) p.world.push_back(s); }
		create.set("out", quoteToken(out));
		p.ops.push_back(create);
		if (!c02) {
			size_t nops = static_cast<size_t>(r.range(3, thorough ? 40 : 20));
			for (size_t i = 0; i < nops; ++i) {
				Line op;
				uint64_t k = r.below(100);
				if (k < 10) op = mkline("op", "listing");
				else if (k < 40) { op = mkline("op", "stream"); op.set("i", r.below(64)).set("rseed", hex64(r.next())).set("byname", r.below(2)).set("case", r.below(6)); }
				else if (k < 60) { op = mkline("op", "extract"); op.set("i", r.below(64)).set("byname", r.below(2)).set("case", r.below(6)); }
				else if (k < 68) op = mkline("op", "extractall");
				else { op = mkline("op", "lookup"); op.set("i", r.below(64)).set("case", r.below(6)); }
				p.ops.push_back(op);
			}
			p.ops.push_back(mkline("op", "listing"));
		}
		return p;
	}

	void execute(const Plan& plan, RunCtx& ctx) override {
		bool c02 = plan.property == "C02";
		struct In { std::string path, onDisk, name; std::vector<uint8_t> data; };
		std::vector<In> ins;
		for (auto& l : plan.world) {
			if (l.verb == "file") {
				In in;
				in.name = unquoteToken(l.get("name"));
				if (in.name.empty() || in.name.find('/') != std::string::npos || in.name == "." || in.name == "..") throw std::runtime_error("bad file name in plan");
				std::string dir = l.get("dir", "-");
				if (dir == "-") dir.clear();
				if (l.u("len") > (4u << 20)) throw std::runtime_error("file too large");
				in.data = patternBytes(l.u("cseed"), static_cast<size_t>(l.u("len")), l.u("pat", 0));
				if (l.u("pat", 0)) ctx.count("probe.patterned_payload");
				in.onDisk = dir.empty() ? in.name : dir + "/" + in.name;
				in.path = spell(dir, in.name, l.u("sp"));
				if (!dir.empty()) disk::mkdirs(dir + "/_s");
				if (l.u("link", 0)) {
					std::string real = "_real" + std::to_string(ins.size());
					disk::put(dir.empty() ? real : dir + "/" + real, in.data);
					if (symlink(real.c_str(), in.onDisk.c_str()) != 0) throw std::runtime_error("symlink failed");
					ctx.count("probe.input_is_symlink");
				} else disk::put(in.onDisk, in.data);
				ins.push_back(in);
			}
		}
		for (auto& l : plan.world) if (l.verb == "sentinel") {
			std::string path = unquoteToken(l.get("path"));
			if (!disk::exists(path)) disk::put(path, prngBytes(l.u("cseed"), static_cast<size_t>(l.u("len"))));
		}
		std::unique_ptr<Archive::VolFile> vol;
		std::vector<Member> exp;
		bool created = false;
		bool any = false;
		for (size_t oi = 0; oi < plan.ops.size(); ++oi) {
			const Line& op = plan.ops[oi];
			ctx.setOp(oi);
			ctx.schedNote(op.verb);
			if (op.verb == "create") {
				if (created) continue;
				std::string out = unquoteToken(op.get("out", "_out.vol"));
				std::vector<std::string> list;
				for (auto& in : ins) list.push_back(in.path);
				// model: refusal?
				bool dup = false, self = false;
				for (size_t a = 0; a < ins.size(); ++a) for (size_t b = a + 1; b < ins.size(); ++b) if (ref::nameEqualNoCase(ins[a].name, ins[b].name)) dup = true;
				auto norm = [](std::string s) { s = upperStr(s); if (s.rfind("./", 0) == 0 && s.find('/', 2) == std::string::npos) s = s.substr(2); return s; };
				for (auto& in : ins) if (norm(in.path) == norm(out)) self = true;
				auto before = disk::snapshot();
				std::string what;
				g_fault.touchedCount = 0;
				Out o = callLib(plan, [&] { Archive::VolFile::CreateArchive(out, list); }, &what);
				if (o == ErrOther) ctx.fail("C01.refuse-dup", "CreateArchive threw something that is not a std::exception");
				// Adaptive second phase: if the implementation went through a side file (temporary, backup, lock ...), the same
				// world is packed again with one more input living at exactly that path - "any inputs in any directories" includes it.
				if (o == OkOut && !dup && !self && !plan.envu("adaptive", 0)) {
					std::vector<std::string> onDisk;
					for (auto& in : ins) onDisk.push_back(in.onDisk);
					std::vector<std::string> side = sidePaths(out, onDisk);
					for (int ti = 0; ti < g_fault.touchedCount; ++ti) if (normPath(g_fault.touched[ti]) == normPath(out)) { ctx.count("probe.path_trace_saw_destination"); break; }
					if (!side.empty()) {
						ctx.count("probe.side_file_seen");
						const std::string& sp = side[plan.seed % side.size()];
						size_t slash = sp.rfind('/');
						std::string dir = slash == std::string::npos ? "-" : sp.substr(0, slash), base = slash == std::string::npos ? sp : sp.substr(slash + 1);
						Plan derived = plan;
						derived.setenv("adaptive", 1);
						Line f = mkline("world", "file");
						f.set("dir", dir).set("name", quoteToken(base)).set("cseed", hex64(mix64(plan.seed, 77))).set("len", 37 + plan.seed % 900).set("sp", 0);
						derived.world.push_back(f);
						ctx.event("adaptive " + sp);
						disk::wipe();
						execute(derived, ctx);
						return;
					}
				}
				if (dup || self) {
					const char* cl = dup ? "C01.refuse-dup" : "C01.refuse-self";
					if (o == OkOut) ctx.fail(cl, std::string("CreateArchive must be refused (") + (dup ? "two inputs have names equal ignoring case" : "the output path names one of the inputs") + ") but succeeded; out=" + out);
					std::string diff = disk::snapshotDiff(before, disk::snapshot());
					if (!diff.empty()) ctx.fail(cl, "refused CreateArchive modified the disk:" + diff);
					ctx.count(dup ? "probe.refused_duplicate" : "probe.refused_self_inclusion");
					ctx.event(std::string("create refused ") + (dup ? "dup" : "self"));
					any = true;
					continue;
				}
				if (o != OkOut) ctx.fail(c02 ? "C02.tiling" : "C01.listing", "CreateArchive(" + out + ", " + std::to_string(list.size()) + " files) failed: " + what);
				created = true;
				// expected members
				std::vector<In> sorted = ins;
				std::sort(sorted.begin(), sorted.end(), [](const In& a, const In& b) { return ref::nameCompare(a.name, b.name) < 0; });
				size_t tableLen = 0;
				for (auto& in : sorted) { Member m; m.name = in.name; m.data = in.data; m.size = static_cast<uint32_t>(in.data.size()); exp.push_back(m); tableLen += in.name.size() + 1; ctx.count("probe.size_mod4_" + std::to_string(in.data.size() % 4)); if (in.data.size() > 131072) ctx.count("probe.copy_chunk_crossed"); }
				ctx.count("probe.nametable_mod4_" + std::to_string(tableLen % 4));
				if (exp.empty()) ctx.count("probe.empty_archive");
				std::vector<uint8_t> bytes;
				if (!disk::get(out, bytes)) ctx.fail(c02 ? "C02.tiling" : "C01.listing", "no archive file at " + out + " after CreateArchive");
				if (c02) {
					ref::VolParse vp = ref::decodeVol(bytes);
					if (!vp.ok()) { auto c = vp.problems[0].find(':'); ctx.fail("C02." + vp.problems[0].substr(0, c), "written archive is not well-formed: " + vp.problems[0].substr(c + 2)); }
					if (vp.names.size() != exp.size()) ctx.fail("C02.names", "written archive holds " + std::to_string(vp.names.size()) + " names for " + std::to_string(exp.size()) + " inputs");
					for (size_t i = 0; i < exp.size(); ++i) {
						if (vp.names[i] != exp[i].name) ctx.fail("C02.names", "name " + std::to_string(i) + " in the name table is '" + vp.names[i] + "', expected '" + exp[i].name + "'");
						if (vp.entries[i].kind != 0x100) ctx.fail("C02.blocks", "member " + std::to_string(i) + " written with kind " + std::to_string(vp.entries[i].kind));
						if (vp.stored[i] != exp[i].data) ctx.fail("C02.blocks", "block " + std::to_string(i) + " does not hold the input file's bytes");
					}
					ctx.event("conform " + hex64(fnv1a(bytes.data(), bytes.size())));
					any = any || !exp.empty();
				}
				std::string what2;
				o = callLib(plan, [&] { vol = std::make_unique<Archive::VolFile>(out); }, &what2);
				if (o != OkOut) ctx.fail(c02 ? "C02.tiling" : "C01.listing", "reopening the written archive failed: " + what2);
				ctx.event("create ok " + std::to_string(exp.size()));
				continue;
			}
			if (!vol) { ctx.event("skip"); continue; }
			maybeCloneArchive(plan, ctx, vol, oi, "C01.listing");
			ArchiveChecker ck{ctx, plan, *vol, vol.get(), exp, "C01", "C01.listing", "C01.stream-bytes", "C01.extract-bytes", "C01.lookup-anycase"};
			if (op.verb == "listing") ck.listing();
			else if (op.verb == "stream") ck.stream(static_cast<size_t>(op.u("i")), op.u("rseed"), op.u("byname") != 0, op.u("case"));
			else if (op.verb == "extract") ck.extract(static_cast<size_t>(op.u("i")), op.u("byname") != 0, op.u("case"), oi);
			else if (op.verb == "extractall") ck.extractAll(oi);
			else if (op.verb == "lookup") ck.lookup(static_cast<size_t>(op.u("i")), op.u("case"));
			else throw std::runtime_error("unknown op " + op.verb);
			any = any || ck.any || !exp.empty();
		}
		{ Armed a; vol.reset(); }
		ctx.nontrivial = any;
		ctx.count("library_calls", plan.ops.size());
	}
	std::string signatureDetail(const Plan& p, const Violation& v) override { return v.opIndex < p.ops.size() ? p.ops[v.opIndex].verb : ""; }
};
FamilyRegistrar regVolRoundtrip(new VolRoundtrip);

// ---------------------------------------------------------------------------------------------
// vol-foreign: archives from the independent encoder

struct VolForeign : Family {
	std::string name() const override { return "vol-foreign"; }
	Plan generate(const std::string&, Rng& r, bool thorough) override {
		Plan p;
		swarmEnv(p, r, true, true);
		genMembers(p, r, 12, thorough ? 9000 : 3000, true);
		size_t nops = static_cast<size_t>(r.range(3, 20));
		p.ops.push_back(mkline("op", "listing"));
		for (size_t i = 0; i < nops; ++i) {
			Line op;
			uint64_t k = r.below(100);
			if (k < 45) { op = mkline("op", "stream"); op.set("i", r.below(64)).set("rseed", hex64(r.next())).set("byname", r.below(2)).set("case", r.below(6)); }
			else if (k < 75) { op = mkline("op", "extract"); op.set("i", r.below(64)).set("byname", r.below(2)).set("case", r.below(6)); }
			else if (k < 85) op = mkline("op", "listing");
			else { op = mkline("op", "lookup"); op.set("i", r.below(64)).set("case", r.below(6)); }
			p.ops.push_back(op);
		}
		return p;
	}
	void execute(const Plan& plan, RunCtx& ctx) override {
		uint32_t spare;
		std::vector<Member> ms = membersFromWorld(plan, spare);
		ref::VolImage im = imageOf(ms, spare);
		// the encoder's own output must satisfy the decoder (self-check of the oracle pair)
		ref::VolParse vp = ref::decodeVol(im.bytes);
		if (!vp.ok()) throw std::runtime_error("reference encoder/decoder disagree: " + vp.problems[0]);
		disk::put("f.vol", im.bytes);
		if (spare) ctx.count("probe.spare_index_slots");
		for (auto& m : ms) { if (m.kind == 0x103) ctx.count("probe.lzh_member"); if (m.kind == 0x101 || m.kind == 0x102) ctx.count("probe.unsupported_kind_member"); }
		std::unique_ptr<Archive::VolFile> vol;
		std::string what;
		Out o = callLib(plan, [&] { vol = std::make_unique<Archive::VolFile>("f.vol"); }, &what);
		if (o != OkOut) ctx.fail("C02.foreign-listing", "format-conforming archive (" + std::to_string(ms.size()) + " members, " + std::to_string(spare) + " spare slots) was not opened: " + what);
		bool any = false;
		for (size_t oi = 0; oi < plan.ops.size(); ++oi) {
			const Line& op = plan.ops[oi];
			ctx.setOp(oi);
			ctx.schedNote(op.verb);
			maybeCloneArchive(plan, ctx, vol, oi, "C02.foreign-listing");
			ArchiveChecker ck{ctx, plan, *vol, vol.get(), ms, "C02", "C02.foreign-listing", "C02.foreign-payload", "C02.foreign-payload", "C02.foreign-listing"};
			if (op.verb == "listing") ck.listing();
			else if (op.verb == "stream") ck.stream(static_cast<size_t>(op.u("i")), op.u("rseed"), op.u("byname") != 0, op.u("case"));
			else if (op.verb == "extract") ck.extract(static_cast<size_t>(op.u("i")), op.u("byname") != 0, op.u("case"), oi);
			else if (op.verb == "lookup") ck.lookup(static_cast<size_t>(op.u("i")), op.u("case"));
			else throw std::runtime_error("unknown op " + op.verb);
			any = any || ck.any || !ms.empty();
		}
		{ Armed a; vol.reset(); }
		ctx.nontrivial = any;
		ctx.count("library_calls", plan.ops.size());
	}
	std::string signatureDetail(const Plan& p, const Violation& v) override { return v.opIndex < p.ops.size() ? p.ops[v.opIndex].verb : ""; }
};
FamilyRegistrar regVolForeign(new VolForeign);

} // namespace
} // namespace sim

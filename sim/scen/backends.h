// Reader backends shared by the stream-seam families: the same bytes behind a MemoryReader, a
// FileReader, a FileSliceReader inside a larger file, or the SimReader stub.
#pragma once
#include "common.h"
#include "../seams/simstream.h"
#include "Stream/FileReader.h"
#include "Stream/MemoryReader.h"
#include "Stream/SliceReader.h"
#include <cstring>
#include <memory>
#include <stdexcept>

namespace sim {

struct ReaderBox {
	std::unique_ptr<char[]> block;
	std::unique_ptr<OP2Utility::Stream::BidirectionalReader> rd;
	SimReader* sim = nullptr;
	uint64_t start = 0; // position of byte 0 of the content (always 0 from the reader's point of view)
};

// backend: mem | file | fileslice | sim | memoff | fileoff
inline ReaderBox openBackend(const std::string& backend, const std::vector<uint8_t>& bytes, const std::string& tag, uint64_t padSeed) {
	ReaderBox b;
	if (backend == "mem") {
		b.block.reset(new char[bytes.size()]);
		memcpy(b.block.get(), bytes.data(), bytes.size());
		b.rd = std::make_unique<OP2Utility::Stream::MemoryReader>(b.block.get(), bytes.size());
	} else if (backend == "sim") {
		auto s = std::make_unique<SimReader>(bytes);
		b.sim = s.get();
		b.rd = std::move(s);
	} else if (backend == "file") {
		disk::put(tag + ".bin", bytes);
		b.rd = std::make_unique<OP2Utility::Stream::FileReader>(tag + ".bin");
	} else if (backend == "fileslice") {
		std::vector<uint8_t> whole = prngBytes(padSeed, 37);
		whole.insert(whole.end(), bytes.begin(), bytes.end());
		auto tail = prngBytes(padSeed ^ 3, 19);
		whole.insert(whole.end(), tail.begin(), tail.end());
		disk::put(tag + ".bin", whole);
		b.rd = std::make_unique<OP2Utility::Stream::FileSliceReader>(OP2Utility::Stream::FileReader(tag + ".bin").Slice(37, bytes.size()));
	} else if (backend == "memoff" || backend == "fileoff") {
		// the content does not start at stream position 0: a reader over junk + content, already advanced to the content
		std::vector<uint8_t> whole = prngBytes(padSeed ^ 0x0ff, 23 + padSeed % 40);
		b.start = whole.size();
		whole.insert(whole.end(), bytes.begin(), bytes.end());
		if (backend == "memoff") {
			b.block.reset(new char[whole.size()]);
			memcpy(b.block.get(), whole.data(), whole.size());
			b.rd = std::make_unique<OP2Utility::Stream::MemoryReader>(b.block.get(), whole.size());
		} else {
			disk::put(tag + ".bin", whole);
			b.rd = std::make_unique<OP2Utility::Stream::FileReader>(tag + ".bin");
		}
		b.rd->Seek(b.start);
	} else throw std::runtime_error("bad backend " + backend);
	return b;
}


} // namespace sim

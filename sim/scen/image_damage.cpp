// Family "image-damage" (C11, fault enumeration): valid BMP / tileset (both formats) / PRT from the
// reference encoders, every structure-guided damage variant (prefixes, field x boundary grid,
// wrap-consistent multi-field templates, flips), then a seeded history of every public operation on
// whatever the loader returned - validate, save in either format, flip, channel swap, and sprite
// extraction by every index 0..count+1 against pixel files of seeded length.
#include "imgworld.h"
#include "Sprite/SpriteLoader.h"
#include "Stream/DynamicMemoryWriter.h"
#include "Stream/MemoryReader.h"
#include <set>
#include <stdexcept>
#include <unordered_set>

using namespace OP2Utility;

namespace sim {
namespace {

struct ImageDamage : Family {
	std::string name() const override { return "image-damage"; }

	Plan generate(const std::string& prop, Rng& r, bool thorough) override {
		Plan p;
		p.setenv("heap", r.below(256));
		p.setenv("stack", r.below(256));
		p.setenv("memcap", 32 << 20);
		p.setenv("watchdog", 900);
		p.setenv("thorough", thorough ? 1 : 0);
		static const uint64_t SR[] = {0, 0, 7, 4096};
		p.setenv("short_read", SR[r.below(4)]);
		uint64_t k = r.below(10);
		Line t = mkline("world", "target");
		std::string kind = k < 4 ? "bmp" : k < 5 ? "tsbmp" : k < 7 ? "pbmp" : "prt";
		// under C08 / C10 the family asks another question of the same damaged inputs: whatever the reader ACCEPTS must obey the laws
		// those properties state for accepted byte strings
		if (prop == "C08") kind = "bmp"; else if (prop == "C10") kind = "prt";
		t.set("kind", kind);
		p.world.push_back(t);
		// one picture world in eight is LARGE: its pixel section lies on or next to a multiple of 128 KiB .. 1 MiB, and it is swept at
		// selected crash points only (around the end and around every 64 KiB multiple)
		bool large = r.chance(1, 8);
		static const uint64_t BLK[] = {131072, 262144, 1048576, 1048576};
		if (kind == "bmp") {
			static const int BITS[] = {1, 4, 8};
			int bits = BITS[r.below(3)];
			int64_t h = static_cast<int64_t>(r.below(9));
			uint64_t w = 1 + r.below(40);
			if (large) {
				static const uint64_t W[] = {1024, 1000, 512, 4096, 100};
				bits = 8; w = W[r.below(5)];
				uint64_t pitch = (w + 3) & ~3ull, rows = BLK[r.below(4)] / pitch * r.range(1, 2);
				switch (r.below(4)) { case 0: rows += 1; break; case 1: rows -= 1; break; default: break; }
				h = static_cast<int64_t>(rows);
			}
			if (r.chance(1, 2)) h = -h;
			Line b = mkline("world", "bmp");
			b.set("seed", hex64(r.next())).set("bits", static_cast<uint64_t>(bits)).set("w", w).set("h", std::to_string(h)).set("used", r.chance(1, 2) ? 0 : r.range(1, 1ull << bits)).set("junkhdr", r.below(2));
			p.world.push_back(b);
		} else if (kind == "tsbmp" || kind == "pbmp") {
			Line ts = mkline("world", "tileset");
			uint64_t tiles = r.below(3);
			if (large) { tiles = BLK[r.below(4)] / 1024 * r.range(1, 2); switch (r.below(4)) { case 0: tiles += 1; break; case 1: tiles -= 1; break; default: break; } }
			ts.set("seed", hex64(r.next())).set("tiles", tiles).set("bottomup", r.below(2));
			p.world.push_back(ts);
		} else {
			Line w = mkline("world", "prt");
			uint64_t npal = r.range(1, 2);
			w.set("seed", hex64(r.next())).set("npal", npal).set("nimg", r.below(5)).set("nanim", large ? r.range(1, 3) : r.below(4)).set("canonical", 1);
			// LARGE: a size-prefixed list of more than a megabyte (image records, or one animation's trailing container)
			if (large) { if (r.chance(1, 2)) w.set("hugeimg", r.range(52000, 70000)); else w.set("hugeuc", r.range(65000, 80000)); p.setenv("memcap", 200 << 20); } // the harness's own field table needs room
			p.world.push_back(w);
		}
		p.damage.push_back(mkline("damage", large ? "large" : "all"));
		if (large) p.setenv("large", 1); // survives the pinning of a single variant
		size_t nops = static_cast<size_t>(large ? r.range(2, 4) : r.range(3, 8));
		static const char* IMGOPS[] = {"validate", "write", "writecustom", "flip", "swap", "flip", "write"};
		static const char* BIG[] = {"0x100000000", "0xffffffffffffffff", "0x7fffffff"};
		for (size_t i = 0; i < nops; ++i) {
			Line op;
			if (kind == "prt") {
				if (r.chance(1, 5)) op = mkline("op", "write");
				else { op = mkline("op", "sprite"); op.set("i", r.chance(1, 10) ? std::string(BIG[r.below(3)]) : "~" + std::to_string(r.below(50))).set("pix", r.chance(1, 3) ? r.below(1200) : r.range(1078, 9000)).set("pseed", hex64(r.next())); }
			} else op = mkline("op", IMGOPS[r.below(7)]);
			p.ops.push_back(op);
		}
		return p;
	}

	void execute(const Plan& plan, RunCtx& ctx) override {
		std::string kind;
		for (auto& l : plan.world) if (l.verb == "target") kind = l.get("kind");
		std::vector<Field> fields;
		std::vector<uint8_t> valid;
		size_t headerLen = 0;
		size_t prtImages = 0;
		std::vector<Line> templates;
		auto multi = [&]() { return mkline("damage", "multi"); };
		if (kind == "bmp") {
			ref::RBmp b;
			for (auto& l : plan.world) if (l.verb == "bmp") b = bmpFromSpec(l);
			valid = ref::encodeBmp(b, &fields);
			headerLen = 54 + 4 * b.palette.size();
			// negative widths whose pitch x |height| equals the pixel size modulo 2^64 (pixel size 0)
			uint64_t po = headerLen;
			for (uint64_t wv : {0xffffffffull, 0xfffffffeull, 0xfffffff8ull, 0xfffffff0ull, 0xffffff00ull, 0x80000000ull})
				for (uint64_t hv : {8ull, 16ull, 64ull, 0xfffffff8ull, 0x40000000ull, 0x80000000ull}) {
					Line l = multi(); l.set("f1", "width").set("v1", hex64(wv)).set("f2", "height").set("v2", hex64(hv)).set("f3", "fileSize").set("v3", hex64(po)).set("trunc", po); templates.push_back(l);
				}
			for (uint64_t hv : {0x80000000ull, 0x80000001ull, 0xffffffffull}) { Line l = multi(); l.set("f1", "height").set("v1", hex64(hv)).set("f2", "fileSize").set("v2", hex64(po)).set("trunc", po); templates.push_back(l); }
			// pixelOffset and fileSize moved together (pixel size unchanged)
			for (const char* d : {"+1", "+4", "-1", "+0x1000", "-54"}) { Line l = multi(); l.set("f1", "pixelOffset").set("v1", d).set("f2", "fileSize").set("v2", d); templates.push_back(l); }
			for (uint64_t cu : {1ull, 2ull, 15ull, 16ull, 17ull, 255ull, 256ull, 257ull}) { Line l = multi(); l.set("f1", "clrUsed").set("v1", hex64(cu)); templates.push_back(l); }
			// the two header fields that bound the pixel section made to coincide (an "empty" pixel section for a non-empty picture)
			{ Line l = multi(); l.set("f1", "fileSize").set("v1", hex64(po)).set("trunc", po); templates.push_back(l); }
			{ Line l = multi(); l.set("f1", "fileSize").set("v1", hex64(po)); templates.push_back(l); }
			{ Line l = multi(); l.set("f1", "pixelOffset").set("v1", hex64(54 + 4 * b.palette.size() + b.pixels.size())); templates.push_back(l); }
		} else if (kind == "tsbmp" || kind == "pbmp") {
			ref::RTileset t;
			bool bu = false;
			for (auto& l : plan.world) if (l.verb == "tileset") { t = tilesetFromSpec(l); bu = l.u("bottomup", 0) != 0; }
			if (kind == "pbmp") {
				valid = ref::encodePbmp(t, &fields);
				headerLen = valid.size() - t.rows.size();
				for (uint64_t hv : {0xffffffe0ull, 0xffffffc0ull, 0x80000000ull, 0x7fffffe0ull, 0x100000ull}) {
					Line l = multi(); l.set("f1", "pixelHeight").set("v1", hex64(hv)).set("f2", "pix.len").set("v2", hex64((32 * hv) & 0xffffffffull)); templates.push_back(l);
				}
				for (uint64_t bd : {1ull, 4ull, 0x10008ull, 0x100008ull}) { Line l = multi(); l.set("f1", "bitDepth").set("v1", hex64(bd)); templates.push_back(l); }
				// section lengths moved together so that sums a reader may cross-check still agree
				for (const char* d : {"4", "8", "12", "64", "1024", "0x100000"}) {
					std::string up = std::string("+") + d, down = std::string("-") + d;
					auto pair = [&](const char* a, const std::string& va, const char* b, const std::string& vb) { Line l = multi(); l.set("f1", a).set("v1", va).set("f2", b).set("v2", vb); templates.push_back(l); };
					pair("PPAL.len", up, "pdata.len", up); pair("PPAL.len", down, "pdata.len", down);
					pair("phead.len", down, "pdata.len", up); pair("phead.len", up, "pdata.len", down);
					pair("PBMP.len", up, "pix.len", up); pair("PBMP.len", down, "pix.len", down);
					pair("head.len", up, "PBMP.len", up);
					Line t3 = multi(); t3.set("f1", "PBMP.len").set("v1", up).set("f2", "PPAL.len").set("v2", up).set("f3", "pdata.len").set("v3", up); templates.push_back(t3);
				}
			} else {
				ref::RBmp b;
				b.bits = 8; b.w = 32; b.h = bu ? static_cast<int32_t>(t.h) : -static_cast<int32_t>(t.h);
				for (auto& c : t.palette) b.palette.push_back(c);
				b.pixels.resize(t.rows.size());
				for (uint32_t y = 0; y < t.h; ++y) memcpy(b.pixels.data() + (bu ? (t.h - 1 - y) : y) * 32, t.rows.data() + y * 32, 32);
				valid = ref::encodeBmp(b, &fields);
				headerLen = 54 + 1024;
			}
		} else if (kind == "prt") {
			ref::RPrt m;
			for (auto& l : plan.world) if (l.verb == "prt") m = prtFromSpec(l);
			// keep pixel extents small so sprite extraction can succeed against the seeded pixel files
			// width >= 1: a zero-width image has a zero-byte scan line, so ANY height is consistent with an empty pixel slice and the
			// row loops of the writer run 2^31 times (finite, minutes) - see DESIGN.md 9
			for (auto& im : m.images) { im.width = 1 + im.width % 39; im.scanLine = (im.width + 3) & ~3u; im.height %= 20; im.dataOffset %= 3000; }
			valid = ref::encodePrt(m, &fields);
			headerLen = valid.size();
			prtImages = m.images.size();
			// palette section lengths moved together so that the header's own sum check still agrees
			for (size_t i = 0; i < m.palettes.size(); ++i) {
				std::string q = "pal" + std::to_string(i) + ".";
				for (const char* d : {"4", "8", "12", "64", "1024", "0x100000"}) {
					std::string up = std::string("+") + d, down = std::string("-") + d;
					auto pair = [&](const char* a, const std::string& va, const char* b, const std::string& vb) { Line l = multi(); l.set("f1", q + a).set("v1", va).set("f2", q + b).set("v2", vb); templates.push_back(l); };
					pair("PPAL.len", up, "data.len", up); pair("PPAL.len", down, "data.len", down);
					pair("head.len", down, "data.len", up); pair("head.len", up, "data.len", down);
					pair("PPAL.len", up, "head.len", up);
				}
			}
			for (size_t i = 0; i < m.images.size(); ++i) {
				std::string q = "img" + std::to_string(i) + ".";
				for (const char* v : {"0xffffffff", "0x80000000", "0x10000", "0xfffffffc"}) {
					Line l = multi(); l.set("f1", q + "width").set("v1", v).set("f2", q + "scanLine").set("v2", hex64((parseU64(v) + 3) & 0xfffffffcull)); templates.push_back(l);
					Line h = multi(); h.set("f1", q + "height").set("v1", v); templates.push_back(h);
					Line o = multi(); o.set("f1", q + "dataOffset").set("v1", v); templates.push_back(o);
				}
			}
		} else throw std::runtime_error("bad target kind");
		bool largeSweep = !plan.damage.empty() && plan.damage[0].verb == "large";
		if (valid.size() > (largeSweep || plan.envu("large", 0) ? (5u << 20) : (256u << 10))) throw std::runtime_error("image-damage target too large");
		bool thorough = plan.envu("thorough", 0) != 0;
		std::vector<Line> variants;
		if (plan.damage.empty()) variants.push_back(mkline("damage", "none"));
		else if (largeSweep) {
			variants.push_back(mkline("damage", "none"));
			std::set<size_t> cuts;
			auto cut = [&](uint64_t k) { if (k < valid.size()) cuts.insert(static_cast<size_t>(k)); };
			for (uint64_t d : {1, 2, 3, 4, 5, 8, 16, 31, 32, 33, 1024, 4096, 65536}) if (valid.size() > d) cut(valid.size() - d);
			for (uint64_t k = 65536; k < valid.size() + 65536; k += 65536) for (int64_t d : {-1, 0, 1}) { cut(k + static_cast<uint64_t>(d)); cut(k + headerLen + static_cast<uint64_t>(d)); }
			while (cuts.size() > 120) cuts.erase(std::next(cuts.begin(), static_cast<long>(mix64(plan.seed, cuts.size()) % cuts.size())));
			for (size_t k : cuts) { Line l = mkline("damage", "truncate"); l.set("k", k); variants.push_back(l); }
		}
		else if (plan.damage[0].verb != "all") variants = plan.damage;
		else {
			variants.push_back(mkline("damage", "none"));
			auto g = enumerateGenericDamage(valid, fields, headerLen, plan.seed, thorough);
			variants.insert(variants.end(), g.begin(), g.end());
			variants.insert(variants.end(), templates.begin(), templates.end());
		}
		std::unordered_set<uint64_t> seen;
		size_t calls = 0;
		// one sprite loader lives through the whole sweep; the ArtFile it shares takes the value of every PRT that loads (valid or damaged)
		std::shared_ptr<ArtFile> sharedArt;
		std::unique_ptr<SpriteLoader> longLoader;
		for (size_t vi = 0; vi < variants.size(); ++vi) {
			const Line& dmg = variants[vi];
			// backend rotates so that every backend meets every damage class over the sweep; a pinned variant carries its backend
			const std::string backendName = dmg.has("backend") ? dmg.get("backend") : (vi % 7 == 3) ? "file" : (vi % 7 == 5) ? "sim" : (vi % 7 == 6 && kind != "tsbmp" && kind != "pbmp") ? "path" : "mem";
			{ Line pinned = dmg; pinned.set("backend", backendName); ctx.setVariant(pinned.str()); }
			ctx.setOp(0);
			std::vector<uint8_t> bytes = applyDamage(valid, fields, dmg);
			bool changed = bytes != valid;
			++ctx.evaluations;
			ctx.count("fault.damage_" + dmg.verb);
			const char* backend = backendName.c_str();
			BitmapFile bf;
			std::shared_ptr<ArtFile> art;
			std::string what;
			Out o = callLib(plan, [&] {
				if (backendName == "path") {
					// the filename overloads - and their history: the VALID file was loaded by name right before (result not judged)
					disk::put("dvalid.in", valid);
					disk::put("d.in", bytes);
					if (kind == "bmp") { try { (void)BitmapFile::ReadIndexed(std::string("dvalid.in")); } catch (const std::exception&) {} bf = BitmapFile::ReadIndexed(std::string("d.in")); }
					else { try { (void)ArtFile::Read(std::string("dvalid.in")); } catch (const std::exception&) {} art = std::make_shared<ArtFile>(ArtFile::Read(std::string("d.in"))); }
					return;
				}
				ReaderBox b = openBackend(backend, bytes, "d", 1);
				if (kind == "bmp") bf = BitmapFile::ReadIndexed(*b.rd);
				else if (kind == "prt") art = std::make_shared<ArtFile>(ArtFile::Read(*b.rd));
				else bf = Tileset::ReadTileset(*b.rd);
			}, &what);
			++calls;
			if (o == ErrOther) ctx.fail("C11.ordinary-error", "loading damaged " + kind + " bytes failed with something that is not a std::exception");
			uint64_t vh = mix64(hashstr(dmg.verb), o);
			if (!changed && o != OkOut) throw std::runtime_error("valid reference-encoded " + kind + " was refused: " + what);
			if (o == OkOut && dmg.verb == "truncate" && dmg.u("k") < valid.size()) ctx.fail("C11.prefix-refused", "a " + std::to_string(dmg.u("k")) + "-byte proper prefix of a valid " + std::to_string(valid.size()) + "-byte " + kind + " file was loaded");
			if (o == OkOut && plan.property == "C08" && kind == "bmp") {
				// C08 over damaged inputs: every byte string the reader accepts yields a bitmap that validates, has the stated geometry
				// and survives write -> read
				std::string lw;
				Out lo = callLib(plan, [&] { bf.Validate(); }, &lw);
				if (lo != OkOut) ctx.fail("C08.valid", "the reader accepted a damaged file but the bitmap it returned fails the library's own validation: " + lw);
				int64_t w = bf.imageHeader.width, hgt = bf.imageHeader.height; unsigned bits = bf.imageHeader.bitCount;
				uint64_t rows = static_cast<uint64_t>(hgt < 0 ? -hgt : hgt);
				unsigned __int128 pitch = w < 0 ? 0 : ((static_cast<unsigned __int128>(w) * bits + 31) / 32) * 4;
				if (w < 0 || (bits != 1 && bits != 4 && bits != 8) || pitch * rows != bf.pixels.size()) ctx.fail("C08.geometry", "accepted bitmap: width " + std::to_string(w) + ", height " + std::to_string(hgt) + ", depth " + std::to_string(bits) + " but " + std::to_string(bf.pixels.size()) + " pixel bytes (|height| rows of the smallest multiple-of-four length holding width x depth bits expected)");
				if (bf.palette.size() > (1u << bits)) ctx.fail("C08.geometry", "accepted bitmap has " + std::to_string(bf.palette.size()) + " palette entries at depth " + std::to_string(bits));
				if (bf.pixels.size() <= (1u << 20)) {
					BitmapFile back;
					lo = callLib(plan, [&] { Stream::DynamicMemoryWriter wr; bf.WriteIndexed(wr); auto rd = wr.GetReader(); back = BitmapFile::ReadIndexed(rd); }, &lw);
					if (lo != OkOut) ctx.fail("C08.roundtrip", "an accepted bitmap could not be written and read back: " + lw);
					bool same = back.imageHeader.width == bf.imageHeader.width && back.imageHeader.height == bf.imageHeader.height && back.imageHeader.bitCount == bf.imageHeader.bitCount && back.palette.size() >= bf.palette.size() && back.pixels.size() == bf.pixels.size();
					for (size_t q = 0; same && q < bf.palette.size(); ++q) same = back.palette[q] == bf.palette[q];
					size_t rowBytes = static_cast<size_t>((static_cast<uint64_t>(w) * bits + 7) / 8), pt = static_cast<size_t>(pitch);
					for (uint64_t y = 0; same && y < rows; ++y) same = memcmp(back.pixels.data() + y * pt, bf.pixels.data() + y * pt, rowBytes) == 0;
					if (!same) ctx.fail("C08.roundtrip", "an accepted bitmap changed in the write -> read round trip");
				}
				ctx.count("probe.accepted_damaged_input_checked_against_laws");
			}
			if (o == OkOut && plan.property == "C10" && kind == "prt") {
				std::string lw;
				for (size_t q = 0; q < art->imageMetas.size(); ++q) {
					const auto& im = art->imageMetas[q];
					if (im.paletteIndex >= art->palettes.size()) ctx.fail("C10.rules", "accepted damaged PRT: image " + std::to_string(q) + " names palette " + std::to_string(im.paletteIndex) + " of " + std::to_string(art->palettes.size()));
					if (im.scanLineByteWidth != ((im.width + 3) & ~3u)) ctx.fail("C10.rules", "accepted damaged PRT: image " + std::to_string(q) + " scan-line width is not its width rounded up to four");
				}
				for (auto& an : art->animations) for (auto& fr : an.frames) if (fr.layerMetadata.count != fr.layers.size()) ctx.fail("C10.rules", "accepted damaged PRT: a frame's 7-bit layer count disagrees with its layer list");
				std::vector<uint8_t> w1, w2;
				std::vector<uint8_t> before = dumpArt(*art);
				Out lo = callLib(plan, [&] { Stream::DynamicMemoryWriter wr; art->Write(wr); auto rd = wr.GetReader(); w1.resize(static_cast<size_t>(rd.Length())); rd.Read(w1.data(), w1.size()); }, &lw);
				if (lo != OkOut) ctx.fail("C10.roundtrip-equal", "a structure the reader accepted was refused by the writer: " + lw);
				if (dumpArt(*art) != before) ctx.fail("C10.write-const", "ArtFile::Write altered the in-memory object");
				ArtFile back;
				lo = callLib(plan, [&] { Stream::MemoryReader rd(w1.data(), w1.size()); back = ArtFile::Read(rd); Stream::DynamicMemoryWriter wr; back.Write(wr); auto r2 = wr.GetReader(); w2.resize(static_cast<size_t>(r2.Length())); r2.Read(w2.data(), w2.size()); }, &lw);
				if (lo != OkOut) ctx.fail("C10.roundtrip-equal", "what the library wrote for an accepted structure was not read back: " + lw);
				if (dumpArt(back) != before) ctx.fail("C10.roundtrip-equal", "an accepted structure changed in the write -> read round trip");
				if (w1 != w2) ctx.fail("C10.byte-stable", "second write of an accepted structure differs from the first");
				ctx.count("probe.accepted_damaged_input_checked_against_laws");
			}
			if (o == OkOut) {
				ctx.count("probe.damaged_input_accepted");
				for (size_t oi = 0; oi < plan.ops.size(); ++oi) {
					const Line& op = plan.ops[oi];
					ctx.setOp(oi);
					if (vi == 0) ctx.schedNote(op.verb);
					const std::string& v = op.verb;
					Out fo = OkOut;
					if (kind == "prt") {
						if (v == "write") fo = callLib(plan, [&] { Stream::DynamicMemoryWriter w; art->Write(w); }, &what);
						else if (v == "sprite") {
							size_t n = art->imageMetas.size();
							std::string tok = op.get("i", "~0");
							size_t i = tok[0] == '~' ? static_cast<size_t>(parseU64(tok.substr(1)) % (n + 2)) : static_cast<size_t>(parseU64(tok));
							disk::put("pix.bmp", prngBytes(op.u("pseed", 1), static_cast<size_t>(op.u("pix", 2000))));
							fo = callLib(plan, [&] { SpriteLoader sl("pix.bmp", art); sl.ExtractImage(i, "_s/out" + std::to_string(oi) + ".bmp"); }, &what);
							if (!largeSweep && !plan.envu("large", 0)) {
								std::string lw;
								Out lo = callLib(plan, [&] {
									if (!longLoader) {
										// its first sprites come from a sibling of the PRT that is smaller in one respect (one palette, every image
										// using it) and larger in another (three more images): whatever the loader remembers from then is stale later
										disk::put("pixlong.bmp", prngBytes(plan.seed ^ 0x91, 6000));
										ArtFile small = *art;
										if (small.palettes.size() > 1) small.palettes.resize(1);
										for (auto& im : small.imageMetas) im.paletteIndex = 0;
										if (!small.imageMetas.empty()) for (int q = 0; q < 3; ++q) small.imageMetas.push_back(small.imageMetas[0]);
										sharedArt = std::make_shared<ArtFile>(small);
										longLoader = std::make_unique<SpriteLoader>("pixlong.bmp", sharedArt);
										for (size_t q = 0; q < small.imageMetas.size() && q < 4; ++q) { try { longLoader->ExtractImage(q, "_s/long_first.bmp"); } catch (const std::exception&) {} }
									}
									*sharedArt = *art;
									longLoader->ExtractImage(i, "_s/long" + std::to_string(oi) + ".bmp");
								}, &lw);
								if (lo == ErrOther) ctx.fail("C11.ordinary-error", "sprite extraction through a long-lived loader (its shared ArtFile holding the PRT just loaded) failed with something that is not a std::exception");
								ctx.count("probe.sprite_through_long_lived_loader");
							}
							if (i == n) ctx.count("probe.sprite_index_equals_count");
							if (fo == OkOut) ctx.count("probe.sprite_extracted");
						} else continue;
					} else {
						if (v == "validate") fo = callLib(plan, [&] { bf.Validate(); }, &what);
						else if (v == "write") fo = callLib(plan, [&] { Stream::DynamicMemoryWriter w; bf.WriteIndexed(w); }, &what);
						else if (v == "writecustom") fo = callLib(plan, [&] { Stream::DynamicMemoryWriter w; Tileset::WriteCustomTileset(w, bf); }, &what);
						else if (v == "flip") fo = callLib(plan, [&] { bf.InvertScanLines(); }, &what);
						else if (v == "swap") fo = callLib(plan, [&] { bf.SwapRedAndBlue(); }, &what);
						else continue;
					}
					++calls;
					if (fo == ErrOther) ctx.fail("C11.ordinary-error", "follow-up operation " + v + " failed with something that is not a std::exception");
					vh = mix64(vh, fo);
				}
				(void)prtImages;
			} else ctx.count("probe.damaged_input_refused");
			{ Armed a; art.reset(); bf = BitmapFile(); }
			if (changed) { ++ctx.nontrivialEvals; if (seen.insert(vh).second) ++ctx.distinctEvals; }
			if (vi == 0) ctx.schedNote(kind);
			ctx.event(dmg.verb + " " + hex64(vh));
		}
		ctx.nontrivial = ctx.nontrivialEvals > 0;
		ctx.count("library_calls", calls);
		ctx.setVariant("");
	}

	std::string signatureDetail(const Plan& p, const Violation& v) override {
		std::string kind;
		for (auto& l : p.world) if (l.verb == "target") kind = l.get("kind");
		std::string d = p.damage.empty() ? "none" : p.damage[0].verb + (p.damage[0].has("field") ? ":" + p.damage[0].get("field") : p.damage[0].has("f1") ? ":" + p.damage[0].get("f1") : "");
		for (auto& c : d) if (c >= '0' && c <= '9') c = '#';
		return kind + "/" + d + "/" + (v.opIndex < p.ops.size() ? p.ops[v.opIndex].verb : "load");
	}
};
FamilyRegistrar regImageDamage(new ImageDamage);

} // namespace
} // namespace sim

// Families "map-stream" (C06: read -> write -> read -> write through the stream seam on several
// backends, fields vs the independent MAP codec, consumed-byte accounting, edit histories) and
// "map-damage" (C07, fault enumeration: every prefix / field x boundary value / wrap templates of valid
// maps and saved games through memory, file and SimReader backends).
#include "backends.h"
#include "../models/refmap.h"
#include "../seams/damage.h"
#include "../seams/simstream.h"
#include "Map/Map.h"
#include "Map/CellType.h"
#include "Stream/DynamicMemoryWriter.h"
#include "Stream/FileReader.h"
#include "Stream/FileWriter.h"
#include "Stream/MemoryReader.h"
#include "Stream/SliceReader.h"
#include <cstring>
#include <memory>
#include <set>
#include <stdexcept>
#include <unordered_set>

using namespace OP2Utility;

namespace sim {
namespace {

ref::RMap mapFromSpec(const Line& l) {
	ref::RMap m;
	Rng r(l.u("seed", 1));
	m.lgW = static_cast<uint32_t>(l.u("lgw", 0));
	m.H = static_cast<uint32_t>(l.u("h", 0));
	if (m.lgW > 12 || (static_cast<uint64_t>(m.H) << m.lgW) > (1u << 20)) throw std::runtime_error("map spec too large");
	m.tag = static_cast<uint32_t>(l.u("tag", 0x1011));
	m.savedGame = static_cast<int32_t>(l.i("saved", 0));
	m.tiles.resize(static_cast<size_t>(m.H) << m.lgW);
	for (auto& t : m.tiles) t = static_cast<uint32_t>(r.next());
	for (int i = 0; i < 4; ++i) m.clip[i] = static_cast<int32_t>(r.next());
	size_t nsrc = static_cast<size_t>(l.u("nsrc", 0));
	for (size_t i = 0; i < nsrc; ++i) {
		ref::RMap::Src s;
		if (!r.chance(1, 3)) { s.name = randName(r, 1, 8, true); s.numTiles = r.chance(1, 4) ? 0 : static_cast<uint32_t>(r.next()); }
		m.srcs.push_back(s);
	}
	size_t nmap = static_cast<size_t>(l.u("nmap", 0)), nter = static_cast<size_t>(l.u("nter", 0)), ng = static_cast<size_t>(l.u("ngroups", 0));
	for (size_t i = 0; i < nmap; ++i) { std::array<uint8_t, 8> a; auto v = prngBytes(r.next(), 8); memcpy(a.data(), v.data(), 8); m.mappings.push_back(a); }
	for (size_t i = 0; i < nter; ++i) { std::array<uint8_t, 264> a; auto v = prngBytes(r.next(), 264); memcpy(a.data(), v.data(), 264); m.terrains.push_back(a); }
	m.groupsUnknown = static_cast<uint32_t>(r.next());
	for (size_t i = 0; i < ng; ++i) {
		ref::RMap::Group g;
		g.w = static_cast<uint32_t>(r.below(5));
		g.h = static_cast<uint32_t>(r.below(5));
		if (l.u("wrapgroups", 0) && r.chance(1, 3)) {
			// dimensions whose 32-bit product (what the format's reader uses for the index count) is small although the
			// mathematical product is not: still a byte string the reader accepts
			static const uint32_t W[][2] = {{0x10000, 0x10000}, {0x10000, 0x10001}, {0x80000001u, 2}, {0x80000000u, 2}, {0x40000001u, 4}, {0xffffffffu, 0xffffffffu}, {0x20000, 0x8000}, {3, 0x55555556u}};
			size_t k = r.below(8);
			g.w = W[k][0]; g.h = W[k][1];
			if (r.chance(1, 2)) std::swap(g.w, g.h);
		}
		g.idx.resize(static_cast<size_t>(static_cast<uint32_t>(g.w * g.h)));
		for (auto& x : g.idx) x = static_cast<uint32_t>(r.next());
		g.name = r.chance(1, 4) ? "" : randName(r, 1, 12, true);
		m.groups.push_back(g);
	}
	m.trailing = prngBytes(r.next(), static_cast<size_t>(l.u("trailing", 0)));
	return m;
}

// every public field of a library Map, canonically
static std::vector<uint8_t> dumpMapFields(const Map& m) {
	std::vector<uint8_t> o;
	auto u32 = [&](uint64_t v) { ref::putU32(o, static_cast<uint32_t>(v)); };
	u32(static_cast<uint32_t>(m.GetVersionTag())); u32(m.IsSavedGame()); u32(m.WidthInTiles()); u32(m.HeightInTiles()); u32(m.tiles.size());
	if (!m.tiles.empty()) { const uint8_t* p = reinterpret_cast<const uint8_t*>(m.tiles.data()); o.insert(o.end(), p, p + m.tiles.size() * 4); }
	u32(static_cast<uint32_t>(m.clipRect.x1)); u32(static_cast<uint32_t>(m.clipRect.y1)); u32(static_cast<uint32_t>(m.clipRect.x2)); u32(static_cast<uint32_t>(m.clipRect.y2));
	u32(m.tilesetSources.size());
	for (auto& s : m.tilesetSources) { u32(s.tilesetFilename.size()); o.insert(o.end(), s.tilesetFilename.begin(), s.tilesetFilename.end()); if (!s.tilesetFilename.empty()) u32(s.numTiles); }
	u32(m.tileMappings.size());
	if (!m.tileMappings.empty()) { const uint8_t* p = reinterpret_cast<const uint8_t*>(m.tileMappings.data()); o.insert(o.end(), p, p + m.tileMappings.size() * 8); }
	u32(m.terrainTypes.size());
	if (!m.terrainTypes.empty()) { const uint8_t* p = reinterpret_cast<const uint8_t*>(m.terrainTypes.data()); o.insert(o.end(), p, p + m.terrainTypes.size() * 264); }
	u32(m.tileGroups.size());
	for (auto& g : m.tileGroups) { u32(g.tileWidth); u32(g.tileHeight); u32(g.mappingIndices.size()); for (auto x : g.mappingIndices) u32(x); u32(g.name.size()); o.insert(o.end(), g.name.begin(), g.name.end()); }
	return o;
}

// compare every public field of a library Map with the reference model
std::string compareMap(const Map& lib, const ref::RMap& m, bool tileGroups) {
	if (static_cast<uint32_t>(lib.GetVersionTag()) != m.tag) return "version tag " + std::to_string(lib.GetVersionTag()) + ", expected " + std::to_string(m.tag);
	if (lib.IsSavedGame() != (m.savedGame != 0)) return "saved-game flag";
	if (lib.WidthInTiles() != m.width()) return "width " + std::to_string(lib.WidthInTiles()) + ", expected " + std::to_string(m.width());
	if (lib.HeightInTiles() != m.H) return "height " + std::to_string(lib.HeightInTiles()) + ", expected " + std::to_string(m.H);
	if (lib.TileCount() != m.tiles.size() || lib.tiles.size() != m.tiles.size()) return "tile count " + std::to_string(lib.tiles.size()) + ", expected " + std::to_string(m.tiles.size());
	if (!m.tiles.empty() && memcmp(lib.tiles.data(), m.tiles.data(), m.tiles.size() * 4) != 0) { size_t i = 0; while (memcmp(&lib.tiles[i], &m.tiles[i], 4) == 0) ++i; return "tile " + std::to_string(i) + " differs"; }
	if (lib.clipRect.x1 != m.clip[0] || lib.clipRect.y1 != m.clip[1] || lib.clipRect.x2 != m.clip[2] || lib.clipRect.y2 != m.clip[3]) return "clip rectangle";
	if (lib.tilesetSources.size() != m.srcs.size()) return "tileset source count " + std::to_string(lib.tilesetSources.size()) + ", expected " + std::to_string(m.srcs.size());
	for (size_t i = 0; i < m.srcs.size(); ++i) {
		if (lib.tilesetSources[i].tilesetFilename != m.srcs[i].name) return "tileset source " + std::to_string(i) + " name";
		if (!m.srcs[i].name.empty() && lib.tilesetSources[i].numTiles != m.srcs[i].numTiles) return "tileset source " + std::to_string(i) + " tile count";
	}
	if (lib.tileMappings.size() != m.mappings.size()) return "tile mapping count";
	if (!m.mappings.empty() && memcmp(lib.tileMappings.data(), m.mappings.data(), m.mappings.size() * 8) != 0) return "tile mappings";
	if (lib.terrainTypes.size() != m.terrains.size()) return "terrain type count";
	if (!m.terrains.empty() && memcmp(lib.terrainTypes.data(), m.terrains.data(), m.terrains.size() * 264) != 0) return "terrain types";
	if (!tileGroups) return "";
	if (lib.tileGroups.size() != m.groups.size()) return "tile group count " + std::to_string(lib.tileGroups.size()) + ", expected " + std::to_string(m.groups.size());
	for (size_t i = 0; i < m.groups.size(); ++i) {
		const auto& a = lib.tileGroups[i];
		const auto& b = m.groups[i];
		if (a.tileWidth != b.w || a.tileHeight != b.h || a.mappingIndices != b.idx || a.name != b.name) return "tile group " + std::to_string(i);
	}
	return "";
}

// What the writer must produce for the logical map `m`, given what it did produce: the saved-game flag normalised to 0/1, no
// trailing bytes, and the one undocumented word of the tile-group header "regenerated" - the property does not say to which
// value, so the expectation adopts the written word (that it is a function of the map alone is what C06.byte-stable and C18
// decide)
static std::vector<uint8_t> expectedRewrite(ref::RMap m, const std::vector<uint8_t>& written) {
	m.savedGame = m.savedGame ? 1 : 0;
	m.trailing.clear();
	std::vector<Field> fields;
	std::vector<uint8_t> e = ref::encodeMap(m, &fields);
	for (auto& f : fields) if (f.name == "groupsUnknown" && f.off + 4 <= e.size() && f.off + 4 <= written.size()) memcpy(e.data() + f.off, written.data() + f.off, 4);
	return e;
}

struct MapStream : Family {
	std::string name() const override { return "map-stream"; }

	Plan generate(const std::string&, Rng& r, bool thorough) override {
		Plan p;
		swarmEnv(p, r, true, true);
		static const char* BK[] = {"mem", "file", "fileslice", "sim", "path", "rvalue", "memoff", "fileoff"};
		p.setenv("backend", BK[r.below(8)]);
		p.setenv("wbackend", r.chance(1, 2) ? "dyn" : r.chance(1, 3) ? "file" : r.chance(1, 2) ? "sim" : "path");
		Line m = mkline("world", "map");
		uint64_t lgw = r.chance(1, 2) ? r.range(5, thorough ? 10 : 8) : r.below(thorough ? 11 : 8);
		uint64_t h = r.chance(1, 6) ? 0 : r.below(thorough ? 65 : 20);
		bool bigMap = r.chance(1, thorough ? 20 : 120);
		if (bigMap) { lgw = r.range(7, 9); h = (40000u >> lgw) + r.below(60); } // tile block above the 128 KiB stream-copy chunk
		while ((h << lgw) > (thorough || bigMap ? 70000u : 9000u)) h /= 2;
		// rarely: a collection whose COUNT sits on a boundary only large files reach - tile arrays around multiples of 2^16..2^18
		// tiles, 2^16 tileset sources or tile mappings
		uint64_t hugeKind = r.chance(1, thorough ? 800 : 300) ? 1 + r.below(3) : 0;
		uint64_t hugeCount = 0;
		if (hugeKind == 1) { lgw = r.range(9, 10); uint64_t blockTiles = 1ull << r.range(16, 18), j = r.range(1, 2); h = ((blockTiles * j) >> lgw) + r.below(5) - 2 + (r.chance(1, 2) ? 0 : r.below(40)); if ((h << lgw) > 600000) h = 600000 >> lgw; }
		else if (hugeKind) { static const uint64_t HC[] = {65535, 65536, 65537, 65600}; hugeCount = HC[r.below(4)]; }
		if (hugeKind) coarsenFaultsForBigWorld(p);
		static const int64_t SG[] = {0, 0, 1, 2, -1, 256, 0x7fffffff};
		m.set("seed", hex64(r.next())).set("lgw", lgw).set("h", h).set("nsrc", hugeKind == 2 ? hugeCount : r.chance(1, 4) ? 0 : r.chance(1, 40) ? r.range(500, 540) : r.below(7)).set("nmap", hugeKind == 3 ? hugeCount : r.chance(1, 4) ? 0 : r.below(21)).set("nter", r.chance(1, 3) ? 0 : r.below(thorough ? 20 : 5))
		 .set("ngroups", r.chance(1, 3) ? 0 : r.below(8)).set("saved", std::to_string(SG[r.below(7)])).set("tag", r.chance(1, 2) ? 0x1011 : r.chance(1, 2) ? 0x1010 : 0x1010 + r.below(0xfffff000u)).set("trailing", r.chance(1, 2) ? 0 : r.below(30)).set("wrapgroups", r.chance(1, 6) ? 1 : 0);
		p.world.push_back(m);
		size_t nops = static_cast<size_t>(r.range(2, thorough ? 40 : 20));
		for (size_t i = 0; i < nops; ++i) {
			Line op;
			uint64_t c = r.below(100);
			if (c < 35) { op = mkline("op", "setcell"); op.set("x", r.below(100000)).set("y", r.below(100000)).set("t", r.below(32)); }
			else if (c < 60) { op = mkline("op", "setlava"); op.set("x", r.below(100000)).set("y", r.below(100000)).set("v", r.below(2)); }
			else if (c < 70) { op = mkline("op", "settag"); op.set("v", 0x1010 + r.below(1000)); }
			else if (c < 78) op = mkline("op", "trim");
			else op = mkline("op", "write");
			p.ops.push_back(op);
		}
		p.ops.push_back(mkline("op", "write"));
		return p;
	}

	std::vector<uint8_t> writeMap(const Plan& plan, RunCtx& ctx, const Map& map, const std::string& wb, const std::string& tag, const char* clause) {
		std::vector<uint8_t> out, otherJunk;
		bool twoWriters = false;
		std::string what;
		Out o = callLib(plan, [&] {
			if (wb == "dyn") { Stream::DynamicMemoryWriter w; map.Write(w); auto rd = w.GetReader(); out.resize(static_cast<size_t>(rd.Length())); rd.Read(out.data(), out.size()); }
			else if (wb == "sim") { SimWriter w; map.Write(w); out = w.data; }
			else if (wb == "path") {
				if (mix64(plan.seed, hashstr(tag) ^ 0xd1f) % 2 == 0) {
					// failure, then success: the same map is first written by name onto a directory (that attempt may fail as it likes)
					disk::mkdirs("_w/adir/_s");
					try { map.Write(std::string("_w/adir")); } catch (const std::exception&) {}
				}
				map.Write(std::string("_w/") + tag + ".map"); // the filename overload
			}
			else {
				// a second file writer may be alive on the same thread while the map is written, its own writes and its close falling
				// before, between or after those of the map's writer: two writers, two files, nothing shared
				uint64_t two = mix64(plan.seed, hashstr(tag) ^ 0x2f) % 5;
				if (two == 0) { Stream::FileWriter w("_w/" + tag + ".map"); map.Write(w); }
				else {
					otherJunk = prngBytes(plan.seed ^ 0x07e4, 300 + plan.seed % 900);
					auto w = std::make_unique<Stream::FileWriter>("_w/" + tag + ".map");
					auto other = std::make_unique<Stream::FileWriter>("_w/" + tag + ".other");
					if (two == 1) { map.Write(*w); other->Write(otherJunk.data(), otherJunk.size()); map.Write(*other); other.reset(); w.reset(); }
					else if (two == 2) { other->Write(otherJunk.data(), otherJunk.size()); map.Write(*w); map.Write(*other); w.reset(); other.reset(); }
					else if (two == 3) { map.Write(*w); other->Write(otherJunk.data(), otherJunk.size()); map.Write(*other); w.reset(); other.reset(); }
					else { other->Write(otherJunk.data(), otherJunk.size()); map.Write(*other); map.Write(*w); other.reset(); w.reset(); }
					twoWriters = true;
				}
			}
		}, &what);
		if (o != OkOut) ctx.fail(clause, "Map::Write failed: " + what);
		if (twoWriters) {
			ctx.count("probe.two_file_writers_alive");
			std::vector<uint8_t> first, second;
			if (!disk::get("_w/" + tag + ".map", first) || !disk::get("_w/" + tag + ".other", second)) ctx.fail(clause, "Map::Write to a file left no file (two file writers were alive)");
			std::vector<uint8_t> want = otherJunk; want.insert(want.end(), first.begin(), first.end());
			if (second != want) ctx.fail(clause, "two file writers were alive at once on one thread: the second file does not hold what was written through its writer (its own " + std::to_string(otherJunk.size()) + " bytes followed by the map): " + firstDiff(second, want));
		}
		if ((wb == "file" || wb == "path") && !disk::get("_w/" + tag + ".map", out)) ctx.fail(clause, "Map::Write to a file left no file");
		return out;
	}

	static std::string firstDiff(const std::vector<uint8_t>& a, const std::vector<uint8_t>& b) {
		size_t i = 0;
		while (i < a.size() && i < b.size() && a[i] == b[i]) ++i;
		return "lengths " + std::to_string(a.size()) + " vs " + std::to_string(b.size()) + ", first difference at byte " + std::to_string(i);
	}

	void execute(const Plan& plan, RunCtx& ctx) override {
		ref::RMap m;
		bool have = false;
		for (auto& l : plan.world) if (l.verb == "map") { m = mapFromSpec(l); have = true; }
		if (!have) throw std::runtime_error("no map in plan");
		size_t consumed = 0;
		std::vector<uint8_t> bytes = ref::encodeMap(m, nullptr, &consumed);
		std::string backend = plan.envs("backend", "mem"), wb = plan.envs("wbackend", "dyn");
		// a second, different map for the interleaved read / write
		ref::RMap m2 = m;
		for (auto& t : m2.tiles) t = ~t;
		for (auto& sname : m2.srcs) if (!sname.name.empty()) sname.name[0] = sname.name[0] == 'q' ? 'r' : 'q';
		m2.tag = m.tag ^ 1 ? m.tag : m.tag + 1; m2.trailing.clear();
		std::vector<uint8_t> bytes2 = backend == "sim" || wb == "sim" ? ref::encodeMap(m2) : std::vector<uint8_t>();
		std::string nestedProblem;
		bool nestedRan = false;
		Map map;
		uint64_t posAfter = 0;
		std::string what;
		ReaderBox box;
		Out o = callLib(plan, [&] {
			if (backend == "path") { disk::put("in.map", bytes); map = Map::ReadMap(std::string("in.map")); posAfter = consumed; return; } // filename overload: consumption not observable
			if (backend == "rvalue") { map = Map::ReadMap(Stream::MemoryReader(bytes.data(), bytes.size())); posAfter = consumed; return; } // rvalue-reference overload
			box = openBackend(backend, bytes, "in", plan.seed);
			if (box.sim) {
				// interleaving at the stream seam: inside one of this read's callbacks another map (other tiles, other names) is read from
				// memory to completion; both results must be right
				box.sim->interleaveAtCall = 1 + mix64(plan.seed, 0x1e) % 9;
				box.sim->interleaveBefore = (mix64(plan.seed, 0x1f) & 1) != 0;
				box.sim->interleave = [&] {
					Stream::MemoryReader r2(bytes2.data(), bytes2.size());
					Map other = Map::ReadMap(r2);
					std::string d2 = compareMap(other, m2, true);
					if (!d2.empty()) nestedProblem = d2;
					nestedRan = true;
				};
			}
			map = Map::ReadMap(*box.rd); posAfter = box.rd->Position() - box.start;
			if (box.sim && !box.sim->interleaveError.empty()) nestedProblem = "it failed: " + box.sim->interleaveError;
		}, &what);
		// C06 quantifies over what the reader ACCEPTS. A reader that refuses (with an ordinary error) an input no writer of this library
		// produces - tile-group dimensions whose mathematical product exceeds 32 bits, 500+ tileset sources or 65535+ entries in a
		// table - does not contradict it; plain files, the shape Map::Write itself emits, must be read (round-trip clause).
		bool exotic = false;
		for (auto& g : m.groups) if (static_cast<uint64_t>(g.w) * g.h > 0xFFFFFFFFull) exotic = true;
		if (m.srcs.size() > 100 || m.mappings.size() >= 65535 || m.tiles.size() > 250000) exotic = true;
		if (nestedRan) ctx.count("probe.second_operation_interleaved");
		if (!nestedProblem.empty()) ctx.fail("C06.fields-equal", "a second map read interleaved into this read (inside one of its stream callbacks): " + nestedProblem);
		if (o == ErrStd && exotic) { ctx.count("probe.exotic_input_refused_by_the_reader"); ctx.nontrivial = true; return; }
		if (o != OkOut) ctx.fail("C06.fields-equal", "a well-formed map (" + std::to_string(bytes.size()) + " bytes, backend " + backend + ") was not read: " + what);
		if (posAfter != consumed) ctx.fail(m.trailing.empty() ? "C06.rewrite-equals-consumed" : "C06.trailing-ignored", "reader consumed " + std::to_string(posAfter) + " bytes; the map occupies " + std::to_string(consumed) + " (" + std::to_string(m.trailing.size()) + " trailing bytes follow)");
		// touching (reading ahead into) trailing bytes is not forbidden as long as the result and the final position ignore them
		if (box.sim && box.sim->highWater != consumed) ctx.count("probe.reader_touched_bytes_beyond_the_map");
		{ Armed a; box.rd.reset(); }
		std::string d = compareMap(map, m, true);
		if (!d.empty()) ctx.fail("C06.fields-equal", "map read from reference-encoded bytes differs from the reference decode: " + d);
		if (!m.trailing.empty()) ctx.count("probe.trailing_bytes_present");
		if (m.tiles.empty()) ctx.count("probe.zero_tiles");
		for (auto& s : m.srcs) if (s.name.empty()) { ctx.count("probe.empty_tileset_name"); break; }
		for (auto& g : m.groups) if (g.idx.empty()) { ctx.count("probe.zero_area_group"); break; }
		// write -> compare with consumed bytes (normalised) -> read -> write
		std::vector<uint8_t> w1 = writeMap(plan, ctx, map, wb, "w1", "C06.rewrite-equals-consumed");
		std::vector<uint8_t> want = expectedRewrite(m, w1);
		if (w1 != want) ctx.fail("C06.rewrite-equals-consumed", "written bytes differ from the consumed bytes (saved-game flag normalised, group header word regenerated): " + firstDiff(w1, want));
		Map map2;
		o = callLib(plan, [&] { ReaderBox b2 = openBackend((backend == "sim" || backend == "path" || backend == "rvalue" || backend == "memoff" || backend == "fileoff") ? "mem" : backend, w1, "re", plan.seed ^ 9); map2 = Map::ReadMap(*b2.rd); }, &what);
		if (o != OkOut) ctx.fail("C06.fields-equal", "the map the library wrote was not read back: " + what);
		ref::RMap canon = m;
		canon.savedGame = m.savedGame ? 1 : 0;
		d = compareMap(map2, canon, true);
		if (!d.empty()) ctx.fail("C06.fields-equal", "map read back after writing differs: " + d);
		std::vector<uint8_t> w2 = writeMap(plan, ctx, map2, wb, "w2", "C06.byte-stable");
		if (w2 != w1) ctx.fail("C06.byte-stable", "second write differs from the first: " + firstDiff(w2, w1));
		// edit history mirrored on the model
		bool edited = false;
		for (size_t oi = 0; oi < plan.ops.size(); ++oi) {
			const Line& op = plan.ops[oi];
			ctx.setOp(oi);
			ctx.schedNote(op.verb);
			const std::string& v = op.verb;
			if (v == "setcell" || v == "setlava") {
				if (m.width() < 32 || m.H == 0) { ctx.event("skip"); continue; }
				uint64_t x = op.u("x") % m.width(), y = op.u("y") % m.H;
				size_t ti = m.tileIndex(x, y);
				if (ti >= m.tiles.size()) throw std::runtime_error("model tile index out of range");
				if (v == "setcell") {
					uint32_t t = static_cast<uint32_t>(op.u("t") % 32);
					o = callLib(plan, [&] { map.SetCellType(static_cast<CellType>(t), static_cast<size_t>(x), static_cast<size_t>(y)); }, &what);
					if (o != OkOut) ctx.fail("C06.edit-exact", "SetCellType(" + std::to_string(t) + ", " + std::to_string(x) + ", " + std::to_string(y) + ") failed: " + what);
					m.tiles[ti] = (m.tiles[ti] & ~0x1fu) | t;
					if (t >= 16) ctx.count("probe.cell_type_16_to_31");
				} else {
					uint32_t bit = static_cast<uint32_t>(op.u("v") & 1);
					o = callLib(plan, [&] { map.SetLavaPossible(bit != 0, static_cast<size_t>(x), static_cast<size_t>(y)); }, &what);
					if (o != OkOut) ctx.fail("C06.edit-exact", "SetLavaPossible failed: " + what);
					m.tiles[ti] = (m.tiles[ti] & ~(1u << 28)) | (bit << 28);
				}
				if (x >= 32) ctx.count("probe.edit_beyond_first_column_block");
				edited = true;
			} else if (v == "settag") {
				uint32_t t = static_cast<uint32_t>(op.u("v", 0x1011));
				{ Armed a; map.SetVersionTag(t); }
				m.tag = t;
				edited = true;
			} else if (v == "trim") {
				{ Armed a; map.TrimTilesetSources(); }
				std::vector<ref::RMap::Src> keep;
				for (auto& s : m.srcs) if (!s.name.empty() && s.numTiles != 0) keep.push_back(s);
				if (keep.size() != m.srcs.size()) ctx.count("probe.trim_removed_sources");
				m.srcs = keep;
				edited = true;
			} else if (v == "write") {
				// the object written is the map itself, a copy of it, a copy-assigned one or one moved out of a copy: value semantics
				Map viaCopy;
				const Map* subject = &map;
				uint64_t how = mix64(plan.seed, oi) % 4;
				if (how) {
					std::string cw;
					bool copied = false;
					Out co = callLib(plan, [&] {
						if constexpr (std::is_copy_constructible<Map>::value && std::is_copy_assignable<Map>::value && std::is_move_constructible<Map>::value && std::is_move_assignable<Map>::value) {
							if (how == 1) { Map c(map); viaCopy = std::move(c); } else if (how == 2) viaCopy = map; else { Map c(map); Map d(std::move(c)); viaCopy = d; }
							copied = true;
						}
					}, &cw);
					if (co != OkOut) ctx.fail("C06.edit-exact", "copying a map failed: " + cw);
					if (copied) subject = &viaCopy;
				}
				std::vector<uint8_t> w = writeMap(plan, ctx, *subject, wb, "e" + std::to_string(oi), "C06.edit-exact");
				std::vector<uint8_t> exp = expectedRewrite(m, w);
				if (w != exp) ctx.fail("C06.edit-exact", "after the edit history the written bytes differ from the model's (each edit changes exactly what it names): " + firstDiff(w, exp));
				ctx.event("write " + hex64(fnv1a(w.data(), w.size())));
			} else throw std::runtime_error("unknown op " + v);
		}
		ctx.nontrivial = !m.tiles.empty() || !m.srcs.empty() || !m.mappings.empty() || !m.groups.empty() || edited;
		ctx.count("library_calls", plan.ops.size() + 5);
		ctx.event("map " + hex64(fnv1a(w1.data(), w1.size())));
	}
	std::string signatureDetail(const Plan& p, const Violation& v) override { return v.opIndex < p.ops.size() ? p.ops[v.opIndex].verb : ""; }
};
FamilyRegistrar regMapStream(new MapStream);

// ---------------------------------------------------------------------------------------------
struct MapDamage : Family {
	std::string name() const override { return "map-damage"; }

	Plan generate(const std::string& prop, Rng& r, bool thorough) override {
		Plan p;
		p.setenv("heap", r.below(256));
		p.setenv("stack", r.below(256));
		p.setenv("memcap", 32 << 20);
		p.setenv("watchdog", 900);
		p.setenv("thorough", thorough ? 1 : 0);
		static const uint64_t SR[] = {0, 0, 7, 4096};
		p.setenv("short_read", SR[r.below(4)]);
		bool saved = r.chance(1, 4);
		// under C06 the family asks of the same damaged inputs: whatever the MAP reader accepts must survive write -> read unchanged
		if (prop == "C06") saved = false;
		Line m = mkline("world", "map");
		uint64_t lgw = r.below(saved ? 3 : 6), h = r.below(saved ? 4 : 9);
		// one world in eight is LARGE (tile array around a multiple of 2^16..2^18 tiles): swept at selected crash points only
		bool large = r.chance(1, 8);
		if (large) { lgw = r.range(9, 10); uint64_t blockTiles = 1ull << r.range(16, 18), j = r.range(1, 2); h = ((blockTiles * j) >> lgw) + r.below(5) - 2 + (r.chance(1, 2) ? 0 : r.below(40)); if ((h << lgw) > 600000) h = 600000 >> lgw; }
		m.set("seed", hex64(r.next())).set("lgw", lgw).set("h", h).set("nsrc", r.below(4)).set("nmap", r.below(4)).set("nter", r.below(saved ? 2 : 3)).set("ngroups", saved ? 0 : r.below(4)).set("saved", saved ? 1 : 0)
		 .set("tag", r.chance(1, 2) ? 0x1011 : 0x1010 + r.below(100)).set("trailing", r.chance(1, 2) ? 0 : r.below(10));
		p.world.push_back(m);
		if (saved) {
			Line u = mkline("world", "units");
			bool zero = r.chance(1, 4);
			u.set("count", zero ? 0 : 1 + r.below(100)).set("size", zero ? r.below(300) : 120).set("n1", r.below(3)).set("n2", r.below(5)).set("nextfree", r.below(3)).set("firstfree", r.below(3)).set("seed", hex64(r.next()));
			// what the opaque unit records hold is the game's business - including words that equal the file's own version tag
			if (r.chance(1, 3)) u.set("ufill", 1 + r.below(2)).set("urot", r.chance(2, 3) ? 0 : r.below(4));
			p.world.push_back(u);
		}
		p.damage.push_back(mkline("damage", large ? "large" : "all"));
		p.ops.push_back(mkline("op", "read"));
		return p;
	}

	void execute(const Plan& plan, RunCtx& ctx) override {
		ref::RMap m;
		ref::SavedUnits u;
		bool saved = false, have = false;
		for (auto& l : plan.world) {
			if (l.verb == "map") { m = mapFromSpec(l); have = true; }
			if (l.verb == "units") { saved = true; u.unitCount = static_cast<uint32_t>(l.u("count")); u.unitSize = static_cast<uint32_t>(l.u("size", 120)); u.n1 = static_cast<uint32_t>(l.u("n1")); u.n2 = static_cast<uint32_t>(l.u("n2")); u.nextFree = static_cast<uint32_t>(l.u("nextfree")); u.firstFree = static_cast<uint32_t>(l.u("firstfree")); u.seed = l.u("seed", 1); u.fill = static_cast<uint32_t>(l.u("ufill", 0)); u.rot = static_cast<uint32_t>(l.u("urot", 0)); }
		}
		if (!have) throw std::runtime_error("no map in plan");
		std::vector<Field> fields;
		size_t consumed = 0;
		std::vector<uint8_t> valid = saved ? ref::encodeSavedGame(m, u, &fields, &consumed) : ref::encodeMap(m, &fields, &consumed);
		size_t headerLen = saved ? valid.size() : consumed;
		// a second valid input of the same kind (same embedded map, other unit-block sizes) for the interleaved read
		std::vector<uint8_t> valid2;
		if (saved) { ref::SavedUnits u2 = u; u2.n1 = u.n1 + 3; u2.n2 = u.n2 + 5; u2.seed = u.seed ^ 0x55aa; valid2 = ref::encodeSavedGame(m, u2); }
		else if (valid.size() < (1u << 16)) valid2 = valid;
		bool nestedRan = false, nestedOk = true;
		bool thorough = plan.envu("thorough", 0) != 0;
		std::vector<Line> variants;
		if (plan.damage.empty()) variants.push_back(mkline("damage", "none"));
		else if (plan.damage[0].verb == "large") {
			// selected crash points of a large file: around the end of the consumed portion and around every multiple of 64 KiB
			// (a block-wise reader's boundaries), with and without the offset at which the tile array starts
			variants.push_back(mkline("damage", "none"));
			std::set<size_t> cuts;
			auto cut = [&](uint64_t k) { if (k < valid.size()) cuts.insert(static_cast<size_t>(k)); };
			for (uint64_t d : {1, 2, 3, 4, 5, 8, 16, 1024, 4096, 65536}) if (consumed > d) cut(consumed - d);
			size_t tileStart = headerLen < valid.size() ? (saved ? ref::kSavedGameSkip : 0) + 16 : 0;
			for (uint64_t k = 65536; k < consumed + 65536; k += 65536) for (int64_t d : {-1, 0, 1}) { cut(k + static_cast<uint64_t>(d)); cut(k + tileStart + static_cast<uint64_t>(d)); }
			while (cuts.size() > 160) cuts.erase(std::next(cuts.begin(), static_cast<long>(mix64(plan.seed, cuts.size()) % cuts.size())));
			for (size_t k : cuts) { Line l = mkline("damage", "truncate"); l.set("k", k); variants.push_back(l); }
			for (auto& f : fields) if (f.name == "lgW" || f.name == "H" || f.name == "nSrc") for (const char* v : {"+1", "-1"}) { Line l = mkline("damage", "subst"); l.set("field", f.name).set("value", v); variants.push_back(l); }
		}
		else if (plan.damage[0].verb != "all") variants = plan.damage;
		else {
			variants.push_back(mkline("damage", "none"));
			std::vector<Field> gridFields = fields;
			// saved games: flips land in the embedded map portion and the unit-block header, not in the 0x1E025 skipped bytes
			size_t mapPortion = ref::encodeMap(m).size() + 64 + static_cast<size_t>(u.n1) * 512 + static_cast<size_t>(u.n2) * 4;
			std::vector<Line> g = saved ? enumerateGenericDamage(valid, gridFields, mapPortion, plan.seed, thorough, ref::kSavedGameSkip)
			                            : enumerateGenericDamage(valid, gridFields, headerLen, plan.seed, thorough);
			variants.insert(variants.end(), g.begin(), g.end());
			// wrap templates: log-width >= 32, products that overflow 32 bits, counts near 2^32
			static const uint64_t LG[] = {16, 20, 24, 28, 30, 31, 32, 33, 40, 63, 64, 255, 0x80000000ull, 0xffffffffull};
			static const uint64_t HH[] = {0, 1, 2, 3, 0x10, 0x100, 0x1000, 0x1001, 0x10000, 0x10001, 0x100000, 0x80000000ull, 0xffffffffull};
			for (uint64_t lg : LG) for (uint64_t hh : HH) { Line l = mkline("damage", "multi"); l.set("f1", "lgW").set("v1", hex64(lg)).set("f2", "H").set("v2", hex64(hh)); variants.push_back(l); }
			for (uint64_t lg = 0; lg < 32; ++lg) { Line l = mkline("damage", "multi"); l.set("f1", "lgW").set("v1", hex64(lg)).set("f2", "H").set("v2", hex64((1ull << (32 - lg)) + (lg % 3))); variants.push_back(l); }
			for (size_t gi = 0; gi < m.groups.size(); ++gi) for (const char* val : {"0x10000", "0x10001", "0xffffffff", "0x80000000"}) { Line l = mkline("damage", "multi"); l.set("f1", "g" + std::to_string(gi) + ".w").set("v1", val).set("f2", "g" + std::to_string(gi) + ".h").set("v2", val); variants.push_back(l); }
		}
		// Interleaving sweep on the VALID input: for every stream callback k of the read, once before and once after the bytes are
		// delivered, a second valid input of the same kind is read to completion inside that callback. Both reads must come back right.
		if (!valid2.empty() && valid.size() < (1u << 20)) {
			uint64_t total = 0;
			{ SimReader probe(valid); std::string pw; Out po = callLib(plan, [&] { Map pm = saved ? Map::ReadSavedGame(probe) : Map::ReadMap(probe); (void)pm; }, &pw); if (po == OkOut) total = probe.calls + 0; total = 0; for (auto& rec : probe.trace) if (rec.op == 'r' || rec.op == 'p') ++total; }
			for (uint64_t k = 1; k <= total && k <= 80; ++k) for (int before = 0; before < 2; ++before) {
				ctx.setVariant("damage none backend=sim"); // the interleaving point is a function of (k, before); a pinned replay repeats the whole sweep
				SimReader rd(valid);
				bool ran = false, ok2 = true;
				rd.interleaveAtCall = k; rd.interleaveBefore = before != 0;
				rd.interleave = [&] { Stream::MemoryReader r2(valid2.data(), valid2.size()); Map other = saved ? Map::ReadSavedGame(r2) : Map::ReadMap(r2); ok2 = compareMap(other, m, !saved).empty(); ran = true; };
				Map first;
				std::string iw;
				Out io = callLib(plan, [&] { first = saved ? Map::ReadSavedGame(rd) : Map::ReadMap(rd); }, &iw);
				const char* cl = saved ? "C07.saved-equals-map" : "C07.self-consistent";
				std::string where = "with a second valid " + std::string(saved ? "saved game" : "map") + " read interleaved at stream callback " + std::to_string(k) + (before ? " (before delivery)" : " (after delivery)");
				if (io != OkOut) ctx.fail(cl, "a valid input was refused " + where + ": " + iw);
				if (!rd.interleaveError.empty() || (ran && !ok2)) ctx.fail(cl, "the interleaved read came back wrong or failed (" + rd.interleaveError + ") " + where);
				std::string d1 = compareMap(first, m, !saved);
				if (!d1.empty()) ctx.fail(cl, "the interrupted read came back wrong " + where + ": " + d1);
				if (ran) ctx.count("probe.interleaving_points_enumerated");
			}
		}
		std::unordered_set<uint64_t> seen;
		size_t calls = 0;
		// reference result for the saved-equals-map clause
		for (size_t vi = 0; vi < variants.size(); ++vi) {
			const Line& dmg = variants[vi];
			// backend rotates so that every backend meets every damage class over the sweep; a pinned variant carries its backend
			const std::string backendName = dmg.has("backend") ? dmg.get("backend") : (vi % 7 == 3) ? "file" : (vi % 7 == 5) ? "sim" : (vi % 7 == 1) ? "path" : (vi % 7 == 6) ? "rvalue" : (vi % 7 == 2) ? "memoff" : (vi % 7 == 4) ? "fileoff" : "mem";
			{ Line pinned = dmg; pinned.set("backend", backendName); ctx.setVariant(pinned.str()); }
			std::vector<uint8_t> bytes = applyDamage(valid, fields, dmg);
			bool changed = bytes != valid;
			++ctx.evaluations;
			ctx.count("fault.damage_" + dmg.verb);
			const char* backend = backendName.c_str();
			Map map;
			std::string what;
			Out o = callLib(plan, [&] {
				if (backendName == "path") { disk::put("d.in", bytes); map = saved ? Map::ReadSavedGame(std::string("d.in")) : Map::ReadMap(std::string("d.in")); return; } // filename overloads
				if (backendName == "rvalue") { map = saved ? Map::ReadSavedGame(Stream::MemoryReader(bytes.data(), bytes.size())) : Map::ReadMap(Stream::MemoryReader(bytes.data(), bytes.size())); return; }
				ReaderBox b = openBackend(backend, bytes, "d", 1);
				if (b.sim && !valid2.empty()) {
					// interleaving at the stream seam: another, valid input of the same kind is read to completion inside one of this read's
					// callbacks (a scratch object shared between the two calls would be resized under the first one's feet)
					b.sim->interleaveAtCall = 1 + mix64(plan.seed, vi) % 24;
					b.sim->interleaveBefore = (mix64(plan.seed, vi + 99) & 1) != 0;
					b.sim->interleave = [&] { Stream::MemoryReader r2(valid2.data(), valid2.size()); Map other = saved ? Map::ReadSavedGame(r2) : Map::ReadMap(r2); nestedOk = compareMap(other, m, !saved).empty(); nestedRan = true; };
				}
				map = saved ? Map::ReadSavedGame(*b.rd) : Map::ReadMap(*b.rd);
			}, &what);
			if (nestedRan) { ctx.count("probe.second_operation_interleaved"); nestedRan = false; if (!nestedOk) ctx.fail(saved ? "C07.saved-equals-map" : "C07.self-consistent", "a valid " + std::string(saved ? "saved game" : "map") + " read interleaved into the read of a damaged one came back wrong"); }
			++calls;
			if (o == ErrOther) ctx.fail("C07.ordinary-error", std::string(saved ? "ReadSavedGame" : "ReadMap") + " failed with something that is not a std::exception");
			uint64_t vh = mix64(hashstr(dmg.verb), o);
			if (o == OkOut && plan.property == "C06") {
				std::vector<uint8_t> w1, w2;
				Map again;
				std::string lw;
				Out lo = callLib(plan, [&] { Stream::DynamicMemoryWriter wr; map.Write(wr); auto rd = wr.GetReader(); w1.resize(static_cast<size_t>(rd.Length())); rd.Read(w1.data(), w1.size()); }, &lw);
				if (lo != OkOut) ctx.fail("C06.fields-equal", "the reader accepted a damaged map that the writer refuses: " + lw);
				lo = callLib(plan, [&] { Stream::MemoryReader rd(w1.data(), w1.size()); again = Map::ReadMap(rd); Stream::DynamicMemoryWriter wr; again.Write(wr); auto r2 = wr.GetReader(); w2.resize(static_cast<size_t>(r2.Length())); r2.Read(w2.data(), w2.size()); }, &lw);
				if (lo != OkOut) ctx.fail("C06.fields-equal", "what the library wrote for an accepted (damaged) map was not read back: " + lw);
				if (dumpMapFields(again) != dumpMapFields(map)) ctx.fail("C06.fields-equal", "an accepted (damaged) map changed in the write -> read round trip");
				if (w1 != w2) ctx.fail("C06.byte-stable", "second write of an accepted (damaged) map differs from the first");
				ctx.count("probe.accepted_damaged_input_checked_against_laws");
			}
			if (o == OkOut) {
				uint64_t w = map.WidthInTiles(), h = map.HeightInTiles();
				bool pow2 = w && !(w & (w - 1));
				if (!pow2) ctx.fail("C07.self-consistent", "accepted map reports width " + std::to_string(w) + ", not a power of two");
				unsigned __int128 prod = static_cast<unsigned __int128>(w) * h;
				if (prod != map.tiles.size() || map.TileCount() != map.tiles.size()) ctx.fail("C07.self-consistent", "accepted map reports " + std::to_string(w) + " x " + std::to_string(h) + " tiles but its tile array has " + std::to_string(map.tiles.size()) + " entries");
				if (dmg.verb == "truncate" && dmg.u("k") < consumed) ctx.fail("C07.prefix-refused", "a " + std::to_string(dmg.u("k")) + "-byte prefix of a valid " + (saved ? "saved game" : "map") + " whose consumed portion is " + std::to_string(consumed) + " bytes was accepted as a smaller success");
				if (!changed) {
					std::string d = compareMap(map, m, !saved);
					if (!d.empty()) ctx.fail(saved ? "C07.saved-equals-map" : "C07.self-consistent", std::string(saved ? "saved game" : "map") + " read from valid bytes differs from the embedded map portion: " + d);
					if (saved) ctx.count("probe.saved_game_read");
				}
				vh = mix64(vh, mix64(w, h));
				ctx.count("probe.damaged_input_accepted");
			} else {
				if (!changed) ctx.fail(saved ? "C07.saved-equals-map" : "C07.self-consistent", std::string("valid ") + (saved ? "saved game" : "map") + " was refused: " + what);
				ctx.count("probe.damaged_input_refused");
			}
			if (changed) { ++ctx.nontrivialEvals; if (seen.insert(vh).second) ++ctx.distinctEvals; }
			if (vi == 0) ctx.schedNote(saved ? "saved" : "map");
			ctx.event(dmg.verb + " " + hex64(vh));
		}
		ctx.nontrivial = ctx.nontrivialEvals > 0;
		ctx.count("library_calls", calls);
		ctx.setVariant("");
	}

	std::string signatureDetail(const Plan& p, const Violation&) override {
		bool saved = false;
		for (auto& l : p.world) if (l.verb == "units") saved = true;
		std::string d = p.damage.empty() ? "none" : p.damage[0].verb + (p.damage[0].has("field") ? ":" + p.damage[0].get("field") : p.damage[0].has("f1") ? ":" + p.damage[0].get("f1") : "");
		for (auto& c : d) if (c >= '0' && c <= '9') c = '#';
		return std::string(saved ? "saved/" : "map/") + d;
	}
};
FamilyRegistrar regMapDamage(new MapDamage);

} // namespace
} // namespace sim

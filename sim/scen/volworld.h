// VOL worlds built from plan lines by the independent encoder (shared by vol-foreign, archive-damage,
// resource-layout, archive-streams).
#pragma once
#include "archive_check.h"
#include "../models/refvol.h"
#include "../models/reflzh.h"
#include <algorithm>

namespace sim {

inline std::vector<Member> membersFromWorld(const Plan& plan, uint32_t& spare) {
	std::vector<Member> ms;
	spare = 0;
	for (auto& l : plan.world) {
		if (l.verb == "volopts") spare = static_cast<uint32_t>(l.u("spare", 0));
		if (l.verb != "member") continue;
		Member m;
		m.name = unquoteToken(l.get("name"));
		if (m.name.empty()) continue;
		m.kind = static_cast<uint16_t>(l.u("kind", 0x100));
		std::vector<uint8_t> payload = prngBytes(l.u("cseed"), static_cast<size_t>(l.u("len")));
		if (l.u("lowentropy", 0)) for (auto& c : payload) c = static_cast<uint8_t>('a' + c % 4);
		if (m.kind == 0x103) {
			ref::LzhTokens toks = ref::tokenize(payload, l.u("tseed", 1));
			m.stored = ref::lzhEncode(toks);
			m.data = ref::lzhDecode(m.stored).out;  // what extraction must produce
			m.size = static_cast<uint32_t>(payload.size());
		} else if (m.kind == 0x100) {
			m.stored = payload; m.data = payload; m.size = static_cast<uint32_t>(payload.size());
		} else {
			m.stored = payload; m.data = payload; m.size = static_cast<uint32_t>(l.u("usize", payload.size()));
		}
		bool clash = false;
		for (auto& o : ms) if (ref::nameEqualNoCase(o.name, m.name)) clash = true;
		if (!clash) ms.push_back(m);
	}
	std::sort(ms.begin(), ms.end(), [](const Member& a, const Member& b) { return ref::nameCompare(a.name, b.name) < 0; });
	return ms;
}

inline ref::VolImage imageOf(const std::vector<Member>& ms, uint32_t spare) {
	std::vector<ref::VolMember> v;
	for (auto& m : ms) { ref::VolMember x; x.name = m.name; x.stored = m.stored; x.size = m.size; x.kind = m.kind; v.push_back(x); }
	return ref::encodeVol(v, spare);
}

inline void genMembers(Plan& p, Rng& r, size_t maxMembers, size_t maxLen, bool allowLzh) {
	size_t n;
	switch (r.below(5)) { case 0: n = 0; break; case 1: n = 1; break; default: n = r.range(1, maxMembers); break; }
	if (maxMembers >= 8 && r.chance(1, 10)) n = r.range(17, 40); // beyond the sizes at which an implementation might switch its search strategy
	std::vector<std::string> names;
	bool twinStart = n >= 2 && r.chance(1, 4);
	for (size_t i = 0; i < n; ++i) {
		std::string nm = randName(r, 1, 12, true);
		if (!names.empty() && r.chance(1, 3)) { const std::string& o = names[r.below(names.size())]; nm = o.substr(0, 1 + r.below(o.size())) + randName(r, 1, 2, false); }
		if (!names.empty() && r.chance(1, 5)) nm = tieProneSibling(names[r.below(names.size())], r);
		if (r.chance(1, 8) || (i < 2 && twinStart)) nm = digestTwin(names, r, 40); // different names with one 32-bit digest (every fourth world starts with such a pair)
		if (!names.empty() && r.chance(1, 4)) { std::string sib = bit5Sibling(names[r.below(names.size())], r); if (!sib.empty()) nm = sib; }
		else if (r.chance(1, 6)) { static const char* P[] = {"[", "{", "@", "`", "^", "~", "]", "}"}; nm.insert(r.below(nm.size() + 1), P[r.below(8)]); }
		if (!nm.empty() && nm[0] == '_') nm[0] = '^'; // harness-owned paths start with '_'
		names.push_back(nm);
		Line m = mkline("world", "member");
		uint64_t k = r.below(10);
		uint16_t kind = k < 6 ? 0x100 : (k < 8 && allowLzh) ? 0x103 : k < 9 ? 0x101 : 0x102;
		uint64_t len = r.chance(1, 5) ? r.below(4) : (maxLen >= 900 && r.chance(1, 12)) ? boundarySize(r, maxLen >= 3000 ? 14 : 12) : r.below(maxLen);
		m.set("name", quoteToken(nm)).set("cseed", hex64(r.next())).set("len", len).set("kind", hex64(kind));
		if (kind == 0x103) m.set("tseed", hex64(r.next())).set("lowentropy", r.below(2));
		if (kind == 0x101 || kind == 0x102) m.set("usize", r.below(100000));
		p.world.push_back(m);
	}
	Line o = mkline("world", "volopts");
	o.set("spare", r.chance(1, 2) ? 0 : r.range(1, 3));
	p.world.push_back(o);
}


} // namespace sim

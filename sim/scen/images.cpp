// Families "bmp-stream" (C08), "tileset-stream" (C09) and "prt-stream" (C10): reference-encoded
// pictures / sprite metadata read through the stream seam on several backends, compared field by
// field with the independent codecs, rewritten, re-read, and checked for byte stability.
#include "imgworld.h"
#include "Stream/DynamicMemoryWriter.h"
#include "Stream/FileWriter.h"
#include "Stream/MemoryReader.h"
#include "Stream/FileWriter.h"
#include "../premain/premain.h"
#include <functional>
#include <stdexcept>

using namespace OP2Utility;

namespace sim {
namespace {

std::string firstDiff(const std::vector<uint8_t>& a, const std::vector<uint8_t>& b) {
	size_t i = 0;
	while (i < a.size() && i < b.size() && a[i] == b[i]) ++i;
	return "lengths " + std::to_string(a.size()) + " vs " + std::to_string(b.size()) + ", first difference at byte " + std::to_string(i);
}

// `interleaved` (optional): another complete library operation on other objects, run by the scheduler inside one of the write
// callbacks of this operation when the destination is the SimWriter stub; it returns "" or what went wrong with ITS result.
template <class F> std::vector<uint8_t> writeVia(const Plan& plan, RunCtx& ctx, const std::string& wbIn, const std::string& tag, const char* clause, F&& writeTo, const std::function<std::string()>& interleaved = nullptr) {
	std::vector<uint8_t> out;
	std::string what;
	std::string wb = wbIn == "path" ? "file" : wbIn;
	std::string nestedProblem;
	bool nestedRan = false;
	Out o = callLib(plan, [&] {
		if (wb == "dyn") { Stream::DynamicMemoryWriter w; writeTo(w); auto rd = w.GetReader(); out.resize(static_cast<size_t>(rd.Length())); rd.Read(out.data(), out.size()); }
		else if (wb == "sim") {
			SimWriter w;
			if (interleaved) { w.interleaveAtCall = 1 + mix64(plan.seed, hashstr(tag)) % 5; w.interleave = [&] { nestedProblem = interleaved(); nestedRan = true; }; }
			writeTo(w);
			out = w.data;
			if (!w.interleaveError.empty()) nestedProblem = "it failed: " + w.interleaveError;
		}
		else { Stream::FileWriter w("_w/" + tag + ".out"); writeTo(w); }
	}, &what);
	if (nestedRan) ctx.count("probe.second_operation_interleaved");
	if (!nestedProblem.empty()) ctx.fail(clause, "a second operation interleaved into this write (inside one of its write callbacks): " + nestedProblem);
	if (o != OkOut) ctx.fail(clause, "writing failed: " + what);
	if (wb == "file" && !disk::get("_w/" + tag + ".out", out)) ctx.fail(clause, "writer left no file");
	return out;
}

// ---------------------------------------------------------------------------------------------
struct BmpStream : Family {
	std::string name() const override { return "bmp-stream"; }

	Plan generate(const std::string&, Rng& r, bool thorough) override {
		Plan p;
		swarmEnv(p, r, true, true);
		static const char* BK[] = {"mem", "file", "fileslice", "sim", "path", "rvalue"};
		p.setenv("backend", BK[r.below(6)]);
		p.setenv("wbackend", r.chance(1, 2) ? "dyn" : r.chance(1, 3) ? "file" : r.chance(1, 2) ? "sim" : "path");
		Line b = mkline("world", "bmp");
		static const int BITS[] = {1, 4, 8};
		int bits = BITS[r.below(3)];
		uint64_t w = r.chance(1, 10) ? 0 : r.below(thorough ? 200 : 70);
		int64_t h = static_cast<int64_t>(r.below(thorough ? 40 : 14));
		if (r.chance(1, thorough ? 400 : 150)) {
			// pixel data larger than the buffers a streaming implementation may use (64 KiB .. 1 MiB): row counts on, next to and
			// between the multiples of rows-per-block, with pitches that do and do not divide the block
			static const uint64_t BW[][2] = {{1001, 8}, {363, 8}, {2001, 4}, {9001, 1}, {1025, 8}, {641, 8}, {1024, 8}, {1000, 8}, {10, 8}, {4096, 8}, {512, 4}, {33, 1}};
			size_t k = r.below(12);
			w = BW[k][0]; bits = static_cast<int>(BW[k][1]);
			uint64_t pitch = ((w * static_cast<uint64_t>(bits) + 7) / 8 + 3) & ~3ull;
			static const uint64_t BLK[] = {65536, 131072, 131072, 262144, 1048576, 1048576};
			uint64_t rowsPerBlock = BLK[r.below(6)] / pitch, j = r.range(1, 3);
			uint64_t rows = rowsPerBlock * j;
			switch (r.below(5)) { case 0: rows += 1; break; case 1: if (rows > 1) rows -= 1; break; case 2: rows += 3 + r.below(40); break; default: break; }
			while (rows * pitch > (3u << 20) || rows > 130000) { if (rowsPerBlock && rows > rowsPerBlock) rows -= rowsPerBlock; else rows /= 2; }
			h = static_cast<int64_t>(rows);
			coarsenFaultsForBigWorld(p);
		}
		if (r.chance(1, 2)) h = -h;
		uint64_t used = r.chance(1, 2) ? 0 : r.range(1, 1ull << bits);
		b.set("seed", hex64(r.next())).set("bits", static_cast<uint64_t>(bits)).set("w", w).set("h", std::to_string(h)).set("used", used).set("junkhdr", r.below(2)).set("rowpool", r.chance(1, 3) ? 1 + r.below(3) : 0);
		p.world.push_back(b);
		size_t nops = static_cast<size_t>(r.range(1, 6));
		for (size_t i = 0; i < nops; ++i) {
			Line op = mkline("op", "factory");
			int fb = BITS[r.below(3)];
			int64_t fh = static_cast<int64_t>(r.below(20));
			if (r.chance(1, 2)) fh = -fh;
			op.set("bits", static_cast<uint64_t>(fb)).set("w", r.below(90)).set("h", std::to_string(fh)).set("seed", hex64(r.next())).set("form", r.below(3));
			if (r.chance(1, 12)) {
				static const uint64_t XW[] = {0, 1, 31, 65536, 0x7fffffffull, 0x80000000ull, 0xffffffffull, 0xfffffff8ull};
				static const int64_t XH[] = {0, 1, -1, 0x7fffffff, -0x7fffffff, -0x7fffffff - 1, 65536, -65536};
				op.set("w", XW[r.below(8)]).set("h", std::to_string(XH[r.below(8)])).set("extreme", 1);
			}
			p.ops.push_back(op);
		}
		return p;
	}

	void execute(const Plan& plan, RunCtx& ctx) override {
		ref::RBmp m;
		bool have = false;
		for (auto& l : plan.world) if (l.verb == "bmp") { m = bmpFromSpec(l); have = true; }
		if (!have) throw std::runtime_error("no bmp in plan");
		if (plan.index % 64 == 0) { std::string lw, d; Out lo = callLib(plan, [&] { d = lifetimeProbeDifference("bitmap:"); }, &lw); if (lo == OkOut && !d.empty()) ctx.fail("C08.factory-equal", d); ctx.count("probe.lifetime_probes_compared"); }
		std::vector<uint8_t> bytes = ref::encodeBmp(m);
		std::string backend = plan.envs("backend", "mem"), wb = plan.envs("wbackend", "dyn");
		BitmapFile bf;
		std::string what;
		ctx.setOp(0);
		Out o = callLib(plan, [&] {
			if (backend == "path") { disk::put("in.bmp", bytes); bf = BitmapFile::ReadIndexed(std::string("in.bmp")); return; }
			if (backend == "rvalue") { bf = BitmapFile::ReadIndexed(Stream::MemoryReader(bytes.data(), bytes.size())); return; }
			ReaderBox b = openBackend(backend, bytes, "in", plan.seed); bf = BitmapFile::ReadIndexed(*b.rd);
		}, &what);
		// the property quantifies over what the reader accepts: a reader that (with an ordinary error) refuses a file whose
		// informational header fields (image size, pixels per metre) hold junk does not contradict it; the plain form of the
		// same file is what the library's own writer emits, which the round-trip clause obliges the reader to accept
		if (o == ErrStd && (m.imageSize || m.xppm || m.yppm)) { ctx.count("probe.bmp_informational_junk_refused"); return; }
		if (o != OkOut) ctx.fail("C08.valid", "a well-formed " + std::to_string(m.bits) + "-bit " + std::to_string(m.w) + "x" + std::to_string(m.h) + " bitmap with " + std::to_string(m.palette.size()) + " palette entries was not read (backend " + backend + "): " + what);
		o = callLib(plan, [&] { bf.Validate(); }, &what);
		if (o != OkOut) ctx.fail("C08.valid", "bitmap returned by the reader fails the library's own validation: " + what);
		// value semantics: from here on the run works on the object itself, a copy, or an object moved out of a copy
		if (plan.seed % 3) {
			o = callLib(plan, [&] { cloneValue(bf, plan.seed % 3); }, &what);
			if (o != OkOut) ctx.fail("C08.geometry", "copying a bitmap failed: " + what);
		}
		// geometry
		if (bf.imageHeader.width < 0 || bf.imageHeader.width != m.w) ctx.fail("C08.geometry", "width " + std::to_string(bf.imageHeader.width) + ", file says " + std::to_string(m.w));
		if (bf.imageHeader.height != m.h || bf.imageHeader.bitCount != m.bits) ctx.fail("C08.geometry", "height/depth " + std::to_string(bf.imageHeader.height) + "/" + std::to_string(bf.imageHeader.bitCount));
		if (bf.pixels.size() != m.pitch() * m.rows()) ctx.fail("C08.geometry", "pixel array has " + std::to_string(bf.pixels.size()) + " bytes; |height| rows of the smallest multiple-of-four length holding width x depth bits is " + std::to_string(m.pitch() * m.rows()));
		if (bf.palette.size() > (1u << m.bits) || bf.palette.size() != m.palette.size()) ctx.fail("C08.geometry", "palette has " + std::to_string(bf.palette.size()) + " entries, file holds " + std::to_string(m.palette.size()));
		for (size_t i = 0; i < m.palette.size(); ++i) { const Color& c = bf.palette[i]; if (c.red != m.palette[i][0] || c.green != m.palette[i][1] || c.blue != m.palette[i][2] || c.alpha != m.palette[i][3]) ctx.fail("C08.geometry", "palette entry " + std::to_string(i) + " differs from the file"); }
		if (bf.pixels != m.pixels) ctx.fail("C08.geometry", "pixel bytes differ from the file");
		ctx.count("probe.rowbits_mod32_" + std::to_string((static_cast<uint64_t>(m.w) * static_cast<uint64_t>(m.bits)) % 32));
		if (m.clrUsed) ctx.count("probe.partial_palette");
		if (m.h < 0) ctx.count("probe.top_down"); else if (m.h == 0) ctx.count("probe.zero_height");
		// write, inspect the bytes with the independent layout knowledge, read back
		std::vector<uint8_t> w1;
		if (wb == "path") {
			bool viaRvalue = plan.seed & 1; // WriteIndexed(Writer&&) with a temporary file writer, or the filename overload
			if (mix64(plan.seed, 0xd1f) % 2 == 0) {
				// failure, then success: first ANOTHER valid bitmap is written by name to a destination that cannot be opened (a directory);
				// whatever that attempt does, the write that follows must produce its own bitmap
				BitmapFile other = bf;
				for (auto& px : other.pixels) px = static_cast<uint8_t>(~px);
				disk::mkdirs("_w/adir/_s");
				std::string fw;
				Out fo = callLib(plan, [&] { other.WriteIndexed(std::string("_w/adir")); }, &fw);
				if (fo == ErrOther) ctx.fail("C08.roundtrip", "WriteIndexed(filename) onto a directory failed with something that is not a std::exception");
				ctx.count(fo == OkOut ? "probe.write_onto_directory_reported_success" : "fault.write_to_unopenable_destination_before_the_real_write");
			}
			o = callLib(plan, [&] { if (viaRvalue) bf.WriteIndexed(Stream::FileWriter("_w/p1.bmp")); else bf.WriteIndexed(std::string("_w/p1.bmp")); }, &what);
			if (o != OkOut) ctx.fail("C08.roundtrip", "WriteIndexed(filename) of a bitmap the reader returned failed: " + what);
			if (!disk::get("_w/p1.bmp", w1)) ctx.fail("C08.roundtrip", "WriteIndexed(filename) left no file");
		} else w1 = writeVia(plan, ctx, wb, "w1", "C08.roundtrip", [&](Stream::Writer& w) { bf.WriteIndexed(w); }, [&]() -> std::string {
			// same geometry, complemented pixels: written to its own memory writer and read back
			BitmapFile other = bf;
			for (auto& px : other.pixels) px = static_cast<uint8_t>(~px);
			Stream::DynamicMemoryWriter w2;
			other.WriteIndexed(w2);
			auto rd = w2.GetReader();
			BitmapFile back = BitmapFile::ReadIndexed(rd);
			size_t rowBytes = ref::bmpRowBytes(static_cast<uint32_t>(m.w), m.bits), pitch = m.pitch();
			if (back.pixels.size() != other.pixels.size()) return "the interleaved bitmap came back with another pixel size";
			for (size_t y = 0; y < m.rows(); ++y) if (memcmp(back.pixels.data() + y * pitch, other.pixels.data() + y * pitch, rowBytes) != 0) return "the interleaved bitmap's row " + std::to_string(y) + " changed";
			return "";
		});
		{
			if (w1.size() < 54 || w1[0] != 'B' || w1[1] != 'M') ctx.fail("C08.roundtrip", "written file lacks a BMP header");
			uint32_t fileSize = ref::getU32(w1, 2), pixelOffset = ref::getU32(w1, 10);
			if (fileSize != w1.size()) ctx.fail("C08.roundtrip", "written file size field " + std::to_string(fileSize) + " != bytes written " + std::to_string(w1.size()));
			if (static_cast<int32_t>(ref::getU32(w1, 18)) != m.w || static_cast<int32_t>(ref::getU32(w1, 22)) != m.h || ref::getU16(w1, 28) != m.bits) ctx.fail("C08.roundtrip", "written header carries different width/height/depth");
			size_t rowBytes = ref::bmpRowBytes(static_cast<uint32_t>(m.w), m.bits), pitch = m.pitch();
			if (static_cast<uint64_t>(pixelOffset) + pitch * m.rows() != w1.size()) ctx.fail("C08.roundtrip", "written pixel offset " + std::to_string(pixelOffset) + " + rows does not end at the end of the file (" + std::to_string(w1.size()) + ")");
			for (size_t y = 0; y < m.rows(); ++y) {
				const uint8_t* row = w1.data() + pixelOffset + y * pitch;
				if (memcmp(row, m.pixels.data() + y * pitch, rowBytes) != 0) ctx.fail("C08.roundtrip", "written row " + std::to_string(y) + " differs in its meaningful bytes");
				for (size_t k = rowBytes; k < pitch; ++k) if (row[k] != 0) ctx.fail("C08.pad-zero", "row " + std::to_string(y) + " padding byte " + std::to_string(k) + " written as " + std::to_string(row[k]));
			}
		}
		BitmapFile bf2;
		o = callLib(plan, [&] { ReaderBox b = openBackend((backend == "sim" || backend == "path" || backend == "rvalue") ? "mem" : backend, w1, "re", plan.seed ^ 5); bf2 = BitmapFile::ReadIndexed(*b.rd); }, &what);
		if (o != OkOut) ctx.fail("C08.roundtrip", "the bitmap the library wrote (" + std::to_string(m.bits) + "-bit, " + std::to_string(m.palette.size()) + " of " + std::to_string(1u << m.bits) + " palette entries) was not read back: " + what);
		if (bf2.imageHeader.width != m.w || bf2.imageHeader.height != m.h || bf2.imageHeader.bitCount != m.bits) ctx.fail("C08.roundtrip", "width/height/depth changed in the round trip");
		if (bf2.palette.size() < m.palette.size() || bf2.palette.size() > (1u << m.bits)) ctx.fail("C08.roundtrip", "palette has " + std::to_string(bf2.palette.size()) + " entries after the round trip, " + std::to_string(m.palette.size()) + " before");
		for (size_t i = 0; i < bf2.palette.size(); ++i) {
			const Color& c = bf2.palette[i];
			if (i < m.palette.size()) { if (c.red != m.palette[i][0] || c.green != m.palette[i][1] || c.blue != m.palette[i][2] || c.alpha != m.palette[i][3]) ctx.fail("C08.roundtrip", "palette entry " + std::to_string(i) + " changed in the round trip"); }
			else if (c.red || c.green || c.blue || c.alpha) ctx.fail("C08.roundtrip", "palette entry " + std::to_string(i) + " appeared in the round trip with a non-black colour");
		}
		{
			size_t rowBytes = ref::bmpRowBytes(static_cast<uint32_t>(m.w), m.bits), pitch = m.pitch();
			if (bf2.pixels.size() != pitch * m.rows()) ctx.fail("C08.roundtrip", "pixel array size changed in the round trip");
			for (size_t y = 0; y < m.rows(); ++y) if (memcmp(bf2.pixels.data() + y * pitch, m.pixels.data() + y * pitch, rowBytes) != 0) ctx.fail("C08.roundtrip", "row " + std::to_string(y) + " changed in the round trip");
		}
		// flip once / twice
		{
			BitmapFile f = bf;
			o = callLib(plan, [&] { f.InvertScanLines(); }, &what);
			if (o != OkOut) ctx.fail("C08.flip", "InvertScanLines failed: " + what);
			size_t pitch = m.pitch();
			if (f.imageHeader.height != -m.h || f.pixels.size() != m.pixels.size()) ctx.fail("C08.flip", "flipping once must negate the height and keep the row count");
			for (size_t y = 0; y < m.rows(); ++y) if (memcmp(f.pixels.data() + y * pitch, m.pixels.data() + (m.rows() - 1 - y) * pitch, pitch) != 0) ctx.fail("C08.flip", "flipping once does not exactly reverse the rows (row " + std::to_string(y) + ")");
			o = callLib(plan, [&] { f.InvertScanLines(); }, &what);
			if (o != OkOut || f.imageHeader.height != m.h || f.pixels != m.pixels) ctx.fail("C08.flip", "flipping twice does not restore the original");
		}
		// factory lane
		for (size_t oi = 0; oi < plan.ops.size(); ++oi) {
			const Line& op = plan.ops[oi];
			ctx.setOp(oi);
			ctx.schedNote(op.verb + op.get("form", ""));
			if (op.verb != "factory") throw std::runtime_error("unknown op " + op.verb);
			int bits = static_cast<int>(op.u("bits", 8));
			uint32_t w = static_cast<uint32_t>(op.u("w", 1));
			int32_t h = static_cast<int32_t>(op.i("h", 1));
			uint64_t form = op.u("form", 0);
			Rng r(op.u("seed", 1));
			std::vector<Color> pal(static_cast<size_t>(r.range(form ? 1 : 0, 1ull << bits)));
			for (auto& c : pal) { c.red = static_cast<uint8_t>(r.next()); c.green = static_cast<uint8_t>(r.next()); c.blue = static_cast<uint8_t>(r.next()); c.alpha = static_cast<uint8_t>(r.next()); }
			bool extreme = op.u("extreme", 0) != 0; // dimensions at the integer limits: the factory may refuse them (ordinary error) or make the bitmap
			if (extreme) { form = 0; pal.clear(); }
			size_t pitch = ref::bmpPitch(w, bits), rowBytes = ref::bmpRowBytes(w, bits), rows = extreme ? 0 : static_cast<size_t>(h < 0 ? -h : h);
			std::vector<uint8_t> px(pitch * rows, 0);
			for (size_t y = 0; y < rows; ++y) for (size_t k = 0; k < rowBytes; ++k) px[y * pitch + k] = static_cast<uint8_t>(r.next());
			BitmapFile made, back;
			o = callLib(plan, [&] {
				if (form == 0) made = BitmapFile::CreateIndexed(static_cast<uint16_t>(bits), w, h);
				else if (form == 1) made = BitmapFile::CreateIndexed(static_cast<uint16_t>(bits), w, h, pal);
				else made = BitmapFile::CreateIndexed(static_cast<uint16_t>(bits), w, h, pal, px);
			}, &what);
			std::string desc = "CreateIndexed(" + std::to_string(bits) + ", " + std::to_string(w) + ", " + std::to_string(h) + (form ? ", palette" : "") + (form == 2 ? ", pixels" : "") + ")";
			if (extreme) {
				if (o == ErrOther) ctx.fail("C08.factory-equal", desc + " threw something that is not a std::exception");
				ctx.count(o == OkOut ? "probe.extreme_factory_dimensions_made" : "probe.extreme_factory_dimensions_refused");
				ctx.event("factory extreme");
				// no round trip for pictures with more than 200 000 rows: a zero-width bitmap of 2^31 rows is legal (0 pixel bytes) but its
				// row loops take minutes - finite, so not a defect, see DESIGN.md 9
				if (o != OkOut || made.pixels.size() > (1u << 20) || (h < 0 ? -static_cast<int64_t>(h) : static_cast<int64_t>(h)) > 200000) continue;
			}
			if (o != OkOut) ctx.fail("C08.factory-equal", desc + " failed: " + what);
			std::vector<uint8_t> fw = writeVia(plan, ctx, wb, "f" + std::to_string(oi), "C08.factory-equal", [&](Stream::Writer& wr) { made.WriteIndexed(wr); });
			o = callLib(plan, [&] { ReaderBox b = openBackend("mem", fw, "fr", 1); back = BitmapFile::ReadIndexed(*b.rd); }, &what);
			if (o != OkOut) ctx.fail("C08.factory-equal", desc + " was written but not read back: " + what);
			bool eq = false;
			{ Armed a; eq = (made == back); }
			if (!eq) ctx.fail("C08.factory-equal", desc + " does not round-trip to an equal object");
			ctx.event("factory " + std::to_string(bits) + " " + std::to_string(w) + " " + std::to_string(h));
		}
		ctx.nontrivial = !m.pixels.empty() || !m.palette.empty();
		ctx.count("library_calls", plan.ops.size() * 3 + 6);
		ctx.event("bmp " + hex64(fnv1a(w1.data(), w1.size())));
	}
	std::string signatureDetail(const Plan& p, const Violation&) override {
		for (auto& l : p.world) if (l.verb == "bmp") return std::string(l.u("used", 0) ? "partial-palette" : "full-palette");
		return "";
	}
};
FamilyRegistrar regBmpStream(new BmpStream);

// ---------------------------------------------------------------------------------------------
struct TilesetStream : Family {
	std::string name() const override { return "tileset-stream"; }

	Plan generate(const std::string&, Rng& r, bool thorough) override {
		Plan p;
		swarmEnv(p, r, true, true);
		static const char* BK[] = {"mem", "file", "fileslice", "sim"};
		p.setenv("backend", BK[r.below(4)]);
		p.setenv("wbackend", r.chance(1, 2) ? "dyn" : r.chance(1, 2) ? "file" : "sim");
		Line t = mkline("world", "tileset");
		uint64_t tiles = r.chance(1, 8) ? 0 : r.below(thorough ? 9 : 5);
		if (r.chance(1, thorough ? 600 : 200)) {
			// giant pictures: pixel sections on and next to multiples of 128 KiB .. 1 MiB (4096 .. 32768 rows of 32 bytes)
			static const uint64_t BLKROWS[] = {4096, 8192, 32768, 32768};
			tiles = BLKROWS[r.below(4)] / 32 * r.range(1, 2);
			switch (r.below(4)) { case 0: tiles += 1; break; case 1: tiles -= 1; break; default: break; }
			coarsenFaultsForBigWorld(p);
		}
		t.set("seed", hex64(r.next())).set("tiles", tiles).set("bottomup", r.below(2)).set("rowpool", r.chance(1, 3) ? 1 + r.below(3) : 0);
		// one world in eight: another tileset, whose palette differs in two entries only but has the same 32-bit FNV-1a digest, is saved
		// and loaded right before this one (a conversion remembered under a digest must not be handed to a different palette)
		if (r.chance(1, 8)) t.set("paltwin", r.below(8)).set("paltwinlane", r.below(2));
		p.world.push_back(t);
		size_t nops = static_cast<size_t>(r.range(3, 12));
		static const char* SIG[] = {"PBMP", "BM", "PBMp", "pBMP", "PBM", "PBMPX", "head", "rnd"};
		static const char* INV[] = {"w31", "w33", "h33", "h1", "bpp4", "bpp1"};
		for (size_t i = 0; i < nops; ++i) {
			Line op;
			uint64_t c = r.below(100);
			if (c < 30) op = mkline("op", "custom");
			else if (c < 55) op = mkline("op", "bmp");
			else if (c < 85) { op = mkline("op", "peek"); op.set("sig", SIG[r.below(8)]).set("start", r.below(20)).set("tail", r.below(12)).set("seed", hex64(r.next())); }
			else {
				// one constraint broken, or two broken so that the scan line still has 32 bytes (4-bit x 64, 1-bit x 256) / height and width both off;
				// orientation of the bad picture and the overload used to save it vary as well
				static const char* INV2[] = {"w31", "w33", "h33", "h1", "bpp4", "bpp1", "bpp4w64", "bpp4w63", "bpp1w256", "bpp1w250", "w64h33", "bpp4h1"};
				op = mkline("op", "invalid");
				op.set("kind", INV2[r.below(12)]).set("via", r.below(3)).set("topdown", r.below(2)).set("rv", r.below(2));
			}
			p.ops.push_back(op);
		}
		return p;
	}

	// the logical picture of a library bitmap: rows top-down + palette
	static bool samePicture(const BitmapFile& b, const ref::RTileset& t, std::string& why) {
		if (b.imageHeader.bitCount != 8 || b.imageHeader.width != 32) { why = "depth/width " + std::to_string(b.imageHeader.bitCount) + "/" + std::to_string(b.imageHeader.width); return false; }
		int64_t h = b.imageHeader.height;
		uint64_t ah = static_cast<uint64_t>(h < 0 ? -h : h);
		if (ah != t.h) { why = "height " + std::to_string(h) + ", picture has " + std::to_string(t.h) + " rows"; return false; }
		if (b.palette.size() != 256) { why = "palette size " + std::to_string(b.palette.size()); return false; }
		for (size_t i = 0; i < 256; ++i) { const Color& c = b.palette[i]; if (c.red != t.palette[i][0] || c.green != t.palette[i][1] || c.blue != t.palette[i][2] || c.alpha != t.palette[i][3]) { why = "palette entry " + std::to_string(i) + " (red/green/blue/alpha) differs"; return false; } }
		if (b.pixels.size() != 32 * ah) { why = "pixel array size " + std::to_string(b.pixels.size()); return false; }
		for (uint64_t y = 0; y < ah; ++y) {
			uint64_t srcRow = h < 0 ? y : ah - 1 - y;
			if (memcmp(b.pixels.data() + srcRow * 32, t.rows.data() + y * 32, 32) != 0) { why = "row " + std::to_string(y) + " (counted from the top) differs"; return false; }
		}
		return true;
	}

	void execute(const Plan& plan, RunCtx& ctx) override {
		if (plan.index % 64 == 0) { std::string lw, d; Out lo = callLib(plan, [&] { d = lifetimeProbeDifference("tileset:"); }, &lw); if (lo == OkOut && !d.empty()) ctx.fail("C09.bytes-reference", d); ctx.count("probe.lifetime_probes_compared"); }
		ref::RTileset t;
		bool bottomUp = false, have = false;
		for (auto& l : plan.world) if (l.verb == "tileset") { t = tilesetFromSpec(l); bottomUp = l.u("bottomup", 0) != 0; have = true; }
		if (!have) throw std::runtime_error("no tileset in plan");
		std::string backend = plan.envs("backend", "mem"), wb = plan.envs("wbackend", "dyn");
		auto makeBitmap = [&](bool bu) {
			std::vector<Color> pal(256);
			for (size_t i = 0; i < 256; ++i) { pal[i].red = t.palette[i][0]; pal[i].green = t.palette[i][1]; pal[i].blue = t.palette[i][2]; pal[i].alpha = t.palette[i][3]; }
			std::vector<uint8_t> px(t.rows.size());
			for (uint32_t y = 0; y < t.h; ++y) memcpy(px.data() + (bu ? (t.h - 1 - y) : y) * 32, t.rows.data() + y * 32, 32);
			return BitmapFile::CreateIndexed(8, 32, bu ? static_cast<int32_t>(t.h) : -static_cast<int32_t>(t.h), pal, px);
		};
		std::string what;
		bool any = false;
		// the digest twin of this world's palette (if the plan has one): saved and loaded as a tileset of its own, results not judged
		bool hasTwin = false; uint64_t twinK = 0; int twinLane = 0;
		for (auto& l : plan.world) if (l.verb == "tileset" && l.has("paltwin")) { hasTwin = true; twinK = l.u("paltwin"); twinLane = static_cast<int>(l.u("paltwinlane", 0)); }
		auto predecessor = [&] {
			if (!hasTwin) return;
			ref::RTileset keep = t;
			paletteTwinHead(twinK, 0, twinLane, t.palette[0], t.palette[1]);
			callLib(plan, [&] {
				BitmapFile pb = makeBitmap(bottomUp);
				Stream::DynamicMemoryWriter w; Tileset::WriteCustomTileset(w, pb);
				auto rd = w.GetReader(); (void)Tileset::ReadTileset(rd);
			}, &what);
			t = keep;
			ctx.count("probe.digest_twin_palette_converted_just_before");
		};
		for (size_t oi = 0; oi < plan.ops.size(); ++oi) {
			const Line& op = plan.ops[oi];
			ctx.setOp(oi);
			ctx.schedNote(op.verb);
			const std::string& v = op.verb;
			if (v == "custom" || v == "bmp") {
				BitmapFile src;
				Out o = callLib(plan, [&] { src = makeBitmap(bottomUp); }, &what);
				if (o != OkOut) ctx.fail("C09.custom-roundtrip", "building the tileset picture failed: " + what);
				predecessor();
				std::vector<uint8_t> bytes = writeVia(plan, ctx, wb, "t" + std::to_string(oi), v == "custom" ? "C09.custom-roundtrip" : "C09.bmp-equals-custom",
				                                      [&](Stream::Writer& w) { if (v == "custom") Tileset::WriteCustomTileset(w, src); else src.WriteIndexed(w); });
				if (v == "custom") {
					std::vector<uint8_t> want = ref::encodePbmp(t);
					if (bytes != want) ctx.fail("C09.bytes-reference", "custom tileset bytes differ from the format description (" + std::string(bottomUp ? "bottom-up" : "top-down") + " input, " + std::to_string(t.h) + " rows): " + firstDiff(bytes, want));
					// determined by the picture alone: the other orientation of the same picture gives the same bytes
					BitmapFile other;
					{ Armed a; other = makeBitmap(!bottomUp); }
					std::vector<uint8_t> bytes2;
					if (mix64(plan.seed, oi) % 3 == 0) {
						// rvalue-reference overload with a temporary file writer
						o = callLib(plan, [&] { Tileset::WriteCustomTileset(Stream::FileWriter("_w/t2r.bin"), other); }, &what);
						if (o != OkOut || !disk::get("_w/t2r.bin", bytes2)) ctx.fail("C09.bytes-reference", "WriteCustomTileset(Writer&&) failed: " + what);
					} else bytes2 = writeVia(plan, ctx, "dyn", "t2", "C09.bytes-reference", [&](Stream::Writer& w) { Tileset::WriteCustomTileset(w, other); });
					if (bytes2 != bytes) ctx.fail("C09.bytes-reference", "the same picture stored bottom-up and top-down produces different custom tileset bytes");
				}
				BitmapFile back;
				uint64_t posAfter = 0;
				predecessor();
				// the load goes through the format-detecting loader, its rvalue-reference overload, or (custom bytes) the direct loader
				uint64_t route = mix64(plan.seed, oi * 7 + 1) % 4;
				o = callLib(plan, [&] {
					if (route == 1) { back = Tileset::ReadTileset(Stream::MemoryReader(bytes.data(), bytes.size())); return; }
					ReaderBox b = openBackend(backend, bytes, "tr", plan.seed ^ oi);
					if (route == 2 && v == "custom") back = Tileset::ReadCustomTileset(*b.rd);
					else if (route == 3 && v == "custom") { back = Tileset::ReadCustomTileset(Stream::MemoryReader(bytes.data(), bytes.size())); return; }
					else back = Tileset::ReadTileset(*b.rd);
					posAfter = b.rd->Position();
				}, &what);
				if (o != OkOut) ctx.fail(v == "custom" ? "C09.custom-roundtrip" : "C09.bmp-equals-custom", "tileset stored as " + std::string(v == "custom" ? "custom format" : "standard bitmap") + " was not loaded: " + what);
				std::string why;
				if (!samePicture(back, t, why)) ctx.fail(v == "custom" ? "C09.custom-roundtrip" : "C09.bmp-equals-custom", "picture loaded from the " + std::string(v == "custom" ? "custom format" : "standard bitmap") + " differs: " + why);
				if (v == "custom" && back.imageHeader.height > 0) ctx.fail("C09.custom-roundtrip", "custom tileset loads in bottom-up orientation");
				if (t.h) any = true;
				if (bottomUp) ctx.count("probe.bottom_up_input");
				ctx.event(v + " " + hex64(fnv1a(bytes.data(), bytes.size())));
			} else if (v == "peek") {
				std::string sig = op.get("sig", "PBMP");
				uint64_t start = op.u("start", 0);
				std::vector<uint8_t> content = prngBytes(op.u("seed", 1), static_cast<size_t>(start));
				std::vector<uint8_t> lead;
				if (sig == "rnd") lead = prngBytes(op.u("seed", 1) ^ 7, 4); else lead.assign(sig.begin(), sig.end());
				content.insert(content.end(), lead.begin(), lead.end());
				auto tail = prngBytes(op.u("seed", 1) ^ 9, static_cast<size_t>(op.u("tail", 0)));
				content.insert(content.end(), tail.begin(), tail.end());
				bool enough = content.size() - start >= 4;
				bool expect = enough && memcmp(content.data() + start, "PBMP", 4) == 0;
				bool got = false;
				uint64_t posAfter = 0, lenAfter = 0;
				Out o = callLib(plan, [&] {
					ReaderBox b = openBackend(backend, content, "pk", plan.seed ^ oi);
					b.rd->Seek(start);
					try { got = (mix64(plan.seed, oi) % 3 == 0) ? Tileset::PeekIsCustomTileset(std::move(*b.rd)) : Tileset::PeekIsCustomTileset(*b.rd); } catch (...) { posAfter = b.rd->Position(); lenAfter = b.rd->Length(); throw; }
					posAfter = b.rd->Position();
					lenAfter = b.rd->Length();
				}, &what);
				if (o == ErrOther) ctx.fail("C09.peek-pure", "non-std exception");
				if (enough && o != OkOut) ctx.fail("C09.peek-pure", "PeekIsCustomTileset failed although 4 bytes are available: " + what);
				if (o == OkOut && got != expect) ctx.fail("C09.peek-pure", "PeekIsCustomTileset = " + std::to_string(got) + " for leading bytes '" + hexBytes(content.data() + start, std::min<size_t>(4, content.size() - static_cast<size_t>(start))) + "'");
				if (posAfter != start || lenAfter != content.size()) ctx.fail("C09.peek-pure", "PeekIsCustomTileset moved the stream from " + std::to_string(start) + " to " + std::to_string(posAfter) + " (backend " + backend + ")");
				ctx.event(std::string("peek ") + (got ? "1" : "0"));
			} else if (v == "invalid") {
				std::string kind = op.get("kind", "w31");
				uint64_t via = op.u("via", 0);
				uint32_t w = 32;
				int32_t h = 32;
				uint16_t bpp = 8;
				if (kind == "w31") w = 31; else if (kind == "w33") w = 33; else if (kind == "h33") h = 33; else if (kind == "h1") h = -1; else if (kind == "bpp4") bpp = 4; else if (kind == "bpp1") bpp = 1;
				else if (kind == "bpp4w64") { bpp = 4; w = 64; } else if (kind == "bpp4w63") { bpp = 4; w = 63; } else if (kind == "bpp1w256") { bpp = 1; w = 256; } else if (kind == "bpp1w250") { bpp = 1; w = 250; }
				else if (kind == "w64h33") { w = 64; h = 33; } else { bpp = 4; h = -1; }
				bool pair = kind.size() > 4 && kind != "bpp1";
				if (op.u("topdown", 0) && h > 0) h = -h; else if (!op.u("topdown", 0) && h < 0 && h != -1) h = -h;
				BitmapFile bad;
				Out o = callLib(plan, [&] { bad = BitmapFile::CreateIndexed(bpp, w, h); }, &what);
				if (o != OkOut) throw std::runtime_error("could not build an invalid tileset picture: " + what);
				if (via == 2 && pair) via = op.u("rv", 0); // the header-field route needs a single named field
				if (via == 0) {
					o = callLib(plan, [&] {
						if (op.u("rv", 0)) { Tileset::WriteCustomTileset(Stream::DynamicMemoryWriter(), bad); } // rvalue-reference overload
						else { Stream::DynamicMemoryWriter wr; Tileset::WriteCustomTileset(wr, bad); }
					}, &what);
					if (o == OkOut) ctx.fail("C09.refuse-invalid", "a " + std::to_string(bpp) + "-bit " + std::to_string(w) + "x" + std::to_string(h) + " picture was saved as a tileset");
				} else if (via == 1) {
					std::vector<uint8_t> bytes = writeVia(plan, ctx, "dyn", "bad", "C09.refuse-invalid", [&](Stream::Writer& wr) { bad.WriteIndexed(wr); });
					o = callLib(plan, [&] { ReaderBox b = openBackend(backend, bytes, "bi", 3); (void)Tileset::ReadTileset(*b.rd); }, &what);
					if (o == OkOut) ctx.fail("C09.refuse-invalid", "a " + std::to_string(bpp) + "-bit " + std::to_string(w) + "x" + std::to_string(h) + " standard bitmap was loaded as a tileset");
				} else {
					// custom-format bytes whose header breaks a constraint
					ref::RTileset tt = t;
					std::vector<Field> fields;
					std::vector<uint8_t> bytes = ref::encodePbmp(tt, &fields);
					const char* fname = (kind == "w31" || kind == "w33") ? "pixelWidth" : (kind == "h33" || kind == "h1") ? "pixelHeight" : "bitDepth";
					uint64_t val = kind == "w31" ? 31 : kind == "w33" ? 33 : kind == "h33" ? tt.h + 1 : kind == "h1" ? tt.h + 31 : kind == "bpp4" ? 4 : 1;
					writeField(bytes, *findField(fields, fname), val);
					o = callLib(plan, [&] { ReaderBox b = openBackend(backend, bytes, "ci", 3); (void)Tileset::ReadTileset(*b.rd); }, &what);
					if (o == OkOut) ctx.fail("C09.refuse-invalid", std::string("custom tileset bytes with ") + fname + " = " + std::to_string(val) + " were loaded");
				}
				if (o == ErrOther) ctx.fail("C09.refuse-invalid", "non-std exception");
				ctx.count("probe.invalid_refused");
				ctx.event("invalid " + kind);
			} else throw std::runtime_error("unknown op " + v);
		}
		ctx.nontrivial = any;
		ctx.count("library_calls", plan.ops.size() * 3);
	}
	std::string signatureDetail(const Plan& p, const Violation& v) override { return v.opIndex < p.ops.size() ? p.ops[v.opIndex].verb + p.ops[v.opIndex].get("kind", "") : ""; }
};
FamilyRegistrar regTilesetStream(new TilesetStream);

// ---------------------------------------------------------------------------------------------
struct PrtStream : Family {
	std::string name() const override { return "prt-stream"; }

	Plan generate(const std::string&, Rng& r, bool thorough) override {
		Plan p;
		swarmEnv(p, r, true, true);
		static const char* BK[] = {"mem", "file", "fileslice", "sim", "path", "rvalue"};
		p.setenv("backend", BK[r.below(6)]);
		p.setenv("wbackend", r.chance(1, 2) ? "dyn" : r.chance(1, 3) ? "file" : r.chance(1, 2) ? "sim" : "path");
		Line w = mkline("world", "prt");
		uint64_t npal = r.below(5);
		bool many = r.chance(1, 25);
		if (many) npal = r.range(1, 16);
		w.set("seed", hex64(r.next())).set("npal", npal).set("nimg", npal ? (many ? r.range(17, 60) : r.below(13)) : 0).set("nanim", many ? r.range(17, 30) : r.below(thorough ? 10 : 7)).set("canonical", r.chance(3, 4) ? 1 : 0);
		if (r.chance(1, thorough ? 60 : 150)) { if (r.chance(1, 2)) w.set("hugeimg", r.range(52000, 70000)); else w.set("hugeuc", r.range(65000, 80000)); coarsenFaultsForBigWorld(p); } // a megabyte of PRT: short transfers not below 64 bytes (per-call I/O budget)
		p.world.push_back(w);
		static const char* BAD[] = {"palidx", "scanline", "layers", "layers2", "layers256", "cancel", "palidxmid"};
		size_t n = static_cast<size_t>(r.below(4));
		for (size_t i = 0; i < n; ++i) { Line op = mkline("op", "refuse"); op.set("kind", BAD[r.below(7)]).set("pick", r.below(1000)); p.ops.push_back(op); }
		return p;
	}

	void execute(const Plan& plan, RunCtx& ctx) override {
		if (plan.index % 64 == 0) { std::string lw, d; Out lo = callLib(plan, [&] { d = lifetimeProbeDifference("art:"); }, &lw); if (lo == OkOut && !d.empty()) ctx.fail("C10.byte-stable", d); ctx.count("probe.lifetime_probes_compared"); }
		ref::RPrt m;
		bool have = false;
		for (auto& l : plan.world) if (l.verb == "prt") { m = prtFromSpec(l); have = true; }
		if (!have) throw std::runtime_error("no prt in plan");
		std::vector<uint8_t> bytes = ref::encodePrt(m);
		std::string backend = plan.envs("backend", "mem"), wb = plan.envs("wbackend", "dyn");
		ArtFile art{};
		std::string what;
		uint64_t posAfter = 0;
		ctx.setOp(0);
		Out o = callLib(plan, [&] {
			if (backend == "path") { disk::put("in.prt", bytes); art = ArtFile::Read(std::string("in.prt")); posAfter = bytes.size(); return; }
			if (backend == "rvalue") { art = ArtFile::Read(Stream::MemoryReader(bytes.data(), bytes.size())); posAfter = bytes.size(); return; }
			ReaderBox b = openBackend(backend, bytes, "in", plan.seed); art = ArtFile::Read(*b.rd); posAfter = b.rd->Position();
		}, &what);
		if (o != OkOut) ctx.fail("C10.roundtrip-equal", "a well-formed PRT (" + std::to_string(m.palettes.size()) + " palettes, " + std::to_string(m.images.size()) + " images, " + std::to_string(m.anims.size()) + " animations) was not read: " + what);
		if (posAfter != bytes.size()) ctx.fail("C10.roundtrip-equal", "reader consumed " + std::to_string(posAfter) + " of " + std::to_string(bytes.size()) + " bytes");
		// value semantics: the rest of the run works on the object itself, a copy, or an object moved out of a copy
		if (plan.seed % 3) {
			o = callLib(plan, [&] { cloneValue(art, plan.seed % 3); }, &what);
			if (o != OkOut) ctx.fail("C10.roundtrip-equal", "copying an ArtFile failed: " + what);
		}
		// cross-field rules on the result
		for (size_t i = 0; i < art.imageMetas.size(); ++i) {
			const auto& im = art.imageMetas[i];
			if (im.paletteIndex >= art.palettes.size()) ctx.fail("C10.rules", "image " + std::to_string(i) + " names palette " + std::to_string(im.paletteIndex) + " of " + std::to_string(art.palettes.size()));
			if (im.scanLineByteWidth != ((im.width + 3) & ~3u)) ctx.fail("C10.rules", "image " + std::to_string(i) + " scan-line width is not its width rounded up to four");
		}
		for (auto& a : art.animations) for (auto& f : a.frames) if (f.layerMetadata.count != f.layers.size()) ctx.fail("C10.rules", "a frame's 7-bit layer count disagrees with its layer list");
		std::string d = comparePrt(art, m);
		if (!d.empty()) ctx.fail(d.rfind("palette", 0) == 0 ? "C10.rgb-bgr" : "C10.roundtrip-equal", "structure read from reference-encoded bytes differs from the reference decode: " + d);
		for (auto& a : m.anims) for (auto& f : a.frames) { ctx.count("probe.frame_flags_" + std::to_string(((f.layerMeta >> 7) & 1) * 2 + ((f.unknownBits >> 7) & 1))); if ((f.layerMeta & 0x7f) == 127) ctx.count("probe.layer_count_127"); if ((f.layerMeta & 0x7f) == 0) ctx.count("probe.layer_count_0"); }
		// Write: bytes, constness, stability
		std::vector<uint8_t> before = dumpArt(art);
		std::vector<uint8_t> w1;
		if (wb == "path") {
			if (mix64(plan.seed, 0xd1f) % 2 == 0) {
				// failure, then success: another structure is first written by name onto a directory
				disk::mkdirs("_w/adir/_s");
				std::string fw;
				Out fo = callLib(plan, [&] { ArtFile other; other.Write(std::string("_w/adir")); }, &fw);
				if (fo == ErrOther) ctx.fail("C10.byte-stable", "ArtFile::Write(filename) onto a directory failed with something that is not a std::exception");
				ctx.count("fault.write_to_unopenable_destination_before_the_real_write");
			}
			o = callLib(plan, [&] { art.Write(std::string("_w/p1.prt")); }, &what);
			if (o != OkOut || !disk::get("_w/p1.prt", w1)) ctx.fail("C10.byte-stable", "ArtFile::Write(filename) failed: " + what);
		} else w1 = writeVia(plan, ctx, wb, "w1", "C10.byte-stable", [&](Stream::Writer& w) { art.Write(w); });
		if (dumpArt(art) != before) ctx.fail("C10.write-const", "ArtFile::Write altered the in-memory object");
		if (m.canonicalHeaders()) { if (w1 != bytes) ctx.fail("C10.reproduces-input", "written bytes differ from the (canonical) input: " + firstDiff(w1, bytes)); }
		else {
			ref::RPrt canon = m;
			for (auto& pal : canon.palettes) pal.hdr = ref::RPrt::PalHeader();
			std::vector<uint8_t> want = ref::encodePrt(canon);
			if (w1 != want) ctx.fail("C10.byte-stable", "written bytes differ from the input with regenerated palette headers: " + firstDiff(w1, want));
			ctx.count("probe.non_canonical_palette_headers");
		}
		ArtFile art2{};
		o = callLib(plan, [&] { ReaderBox b = openBackend((backend == "sim" || backend == "path" || backend == "rvalue") ? "mem" : backend, w1, "re", plan.seed ^ 3); art2 = ArtFile::Read(*b.rd); }, &what);
		if (o != OkOut) ctx.fail("C10.roundtrip-equal", "what the library wrote was not read back: " + what);
		if (dumpArt(art2) != before) ctx.fail("C10.roundtrip-equal", "structure read back after writing differs from the original");
		std::vector<uint8_t> w2 = writeVia(plan, ctx, wb, "w2", "C10.byte-stable", [&](Stream::Writer& w) { art2.Write(w); });
		if (w2 != w1) ctx.fail("C10.byte-stable", "second write differs from the first: " + firstDiff(w2, w1));
		// fault: the destination fails at a seeded write call (device error, out of memory, size rejected). The write may fail, but
		// "writing never alters the in-memory object": the object is as before and writes the same bytes afterwards
		{
			SimWriter count;
			{ Armed a; try { art.Write(count); } catch (...) {} }
			if (count.writeCalls > 0) {
				SimWriter fw;
				fw.failAtCall = 1 + mix64(plan.seed, 0xfa11) % count.writeCalls;
				fw.failKind = static_cast<int>(mix64(plan.seed, 0xfa12) % 3);
				Out fo = callLib(plan, [&] { art.Write(fw); }, &what);
				if (fo == ErrOther) ctx.fail("C10.write-const", "a write whose destination failed ended with something that is not a std::exception");
				ctx.count("fault.destination_failed_during_write");
				if (dumpArt(art) != before) ctx.fail("C10.write-const", "ArtFile::Write altered the in-memory object when its destination failed at write call " + std::to_string(fw.failAtCall) + " of " + std::to_string(count.writeCalls) + " (failure kind " + std::to_string(fw.failKind) + ")");
				std::vector<uint8_t> w3 = writeVia(plan, ctx, "dyn", "w3", "C10.byte-stable", [&](Stream::Writer& w) { art.Write(w); });
				if (w3 != w1) ctx.fail("C10.byte-stable", "the write after a write whose destination failed differs from the first: " + firstDiff(w3, w1));
			}
		}
		// writer refusal lane
		for (size_t oi = 0; oi < plan.ops.size(); ++oi) {
			const Line& op = plan.ops[oi];
			ctx.setOp(oi);
			ctx.schedNote(op.verb + op.get("kind", ""));
			if (op.verb != "refuse") throw std::runtime_error("unknown op " + op.verb);
			std::string kind = op.get("kind", "palidx");
			uint64_t pick = op.u("pick", 0);
			ArtFile bad = art;
			bool applied = false;
			if (kind == "palidx" && !bad.imageMetas.empty()) { bad.imageMetas[pick % bad.imageMetas.size()].paletteIndex = static_cast<uint16_t>(bad.palettes.size() + pick % 3); applied = true; }
			else if (kind == "scanline" && !bad.imageMetas.empty()) { auto& im = bad.imageMetas[pick % bad.imageMetas.size()]; im.scanLineByteWidth += (pick % 2) ? 4 : 1; applied = true; }
			else if (kind == "palidxmid" && bad.imageMetas.size() >= 2) {
				// exactly one image out of range, at a seeded position among valid ones (not necessarily the largest or the last)
				bad.imageMetas[pick % bad.imageMetas.size()].paletteIndex = static_cast<uint16_t>(bad.palettes.size());
				applied = true;
			}
			else if (kind == "layers256") {
				// a layer list that disagrees with the 7-bit count by a multiple of 256 (equal modulo a truncating comparison)
				for (auto& a : bad.animations) { if (applied) break; for (auto& f : a.frames) { f.layers.resize(f.layers.size() + 256 * (1 + pick % 2)); applied = true; break; } }
			}
			else if (kind == "cancel") {
				// two inconsistent frames whose differences cancel: the file-wide totals still agree
				std::vector<Animation::Frame*> fs;
				for (auto& a : bad.animations) for (auto& f : a.frames) fs.push_back(&f);
				if (fs.size() >= 2) {
					Animation::Frame* x = fs[pick % fs.size()];
					Animation::Frame* y = fs[(pick / 7 + 1 + pick % fs.size()) % fs.size()];
					if (x != y && y->layers.size() >= 1) { size_t d = 1 + pick % y->layers.size(); x->layers.resize(x->layers.size() + d); y->layers.resize(y->layers.size() - d); applied = true; }
				}
			}
			else if (kind == "layers" || kind == "layers2") {
				for (auto& a : bad.animations) { if (applied) break; for (auto& f : a.frames) { if (kind == "layers") { f.layers.resize(f.layers.size() + 1 + pick % 3); } else { if (f.layers.empty()) continue; f.layers.pop_back(); } applied = true; break; } }
			}
			if (!applied) { ctx.event("skip"); continue; }
			o = callLib(plan, [&] { Stream::DynamicMemoryWriter w; bad.Write(w); }, &what);
			if (o == ErrOther) ctx.fail("C10.refuse-invalid", "non-std exception");
			if (o == OkOut) ctx.fail("C10.refuse-invalid", "ArtFile::Write accepted a structure violating the cross-field rule '" + kind + "'");
			// refused every time, not only the first: the same object again, and a copy of it
			o = callLib(plan, [&] { Stream::DynamicMemoryWriter w; bad.Write(w); }, &what);
			if (o == OkOut) ctx.fail("C10.refuse-invalid", "ArtFile::Write refused a structure violating the cross-field rule '" + kind + "' and accepted the same object on the second attempt");
			o = callLib(plan, [&] { ArtFile again = bad; SimWriter w; again.Write(w); }, &what);
			if (o == OkOut) ctx.fail("C10.refuse-invalid", "ArtFile::Write refused a structure violating the cross-field rule '" + kind + "' and accepted a copy of it");
			ctx.count("probe.writer_refused_" + kind);
			ctx.event("refuse " + kind);
		}
		ctx.nontrivial = !m.palettes.empty() || !m.anims.empty();
		ctx.count("library_calls", plan.ops.size() + 6);
		ctx.event("prt " + hex64(fnv1a(w1.data(), w1.size())));
	}
	std::string signatureDetail(const Plan& p, const Violation& v) override { return v.opIndex < p.ops.size() ? p.ops[v.opIndex].get("kind", "") : ""; }
};
FamilyRegistrar regPrtStream(new PrtStream);

} // namespace
} // namespace sim

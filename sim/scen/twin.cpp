// Family "twin-env" (C18): every serialising / parsing scenario is executed twice in one process under
// two simulated environments that differ in heap fill byte, stack fill byte, heap shift, input list
// order, path spelling, directory listing order and transparent-fault configuration. Outputs must be
// byte-identical and canonical dumps of parsed structures equal: nothing may depend on uninitialised
// or stale memory, addresses, or how the same logical input was presented.
#include "imgworld.h"
#include "../models/refclm.h"
#include "../models/refmap.h"
#include "../models/reflzh.h"
#include "../models/refvol.h"
#include "Archive/ClmFile.h"
#include "Archive/VolFile.h"
#include "Map/Map.h"
#include "Stream/DynamicMemoryWriter.h"
#include "Stream/FileWriter.h"
#include "../premain/premain.h"
#include <algorithm>
#include <map>
#include <stdexcept>

using namespace OP2Utility;

namespace sim {

void resetDirOrdinal();

namespace {

typedef std::map<std::string, std::vector<uint8_t>> Outputs;

struct Env { uint64_t heap, stack, shift, shortRead, shortWrite, eintr, readdir, perm, spell; };

std::vector<uint8_t> dumpMap(const Map& m) {
	std::vector<uint8_t> o;
	auto u32 = [&](uint64_t v) { ref::putU32(o, static_cast<uint32_t>(v)); };
	u32(static_cast<uint32_t>(m.GetVersionTag())); u32(m.IsSavedGame()); u32(m.WidthInTiles()); u32(m.HeightInTiles()); u32(m.tiles.size());
	if (!m.tiles.empty()) ref::putBytes(o, m.tiles.data(), m.tiles.size() * 4);
	u32(static_cast<uint32_t>(m.clipRect.x1)); u32(static_cast<uint32_t>(m.clipRect.y1)); u32(static_cast<uint32_t>(m.clipRect.x2)); u32(static_cast<uint32_t>(m.clipRect.y2));
	u32(m.tilesetSources.size());
	for (auto& s : m.tilesetSources) { u32(s.tilesetFilename.size()); o.insert(o.end(), s.tilesetFilename.begin(), s.tilesetFilename.end()); u32(s.numTiles); }
	u32(m.tileMappings.size());
	if (!m.tileMappings.empty()) ref::putBytes(o, m.tileMappings.data(), m.tileMappings.size() * 8);
	u32(m.terrainTypes.size());
	if (!m.terrainTypes.empty()) ref::putBytes(o, m.terrainTypes.data(), m.terrainTypes.size() * 264);
	u32(m.tileGroups.size());
	for (auto& g : m.tileGroups) { u32(g.tileWidth); u32(g.tileHeight); u32(g.mappingIndices.size()); for (auto x : g.mappingIndices) u32(x); u32(g.name.size()); o.insert(o.end(), g.name.begin(), g.name.end()); }
	return o;
}

std::vector<uint8_t> dumpBitmap(const BitmapFile& b) {
	std::vector<uint8_t> o;
	ref::putBytes(o, &b.bmpHeader, sizeof b.bmpHeader);
	ref::putBytes(o, &b.imageHeader, sizeof b.imageHeader);
	ref::putU32(o, static_cast<uint32_t>(b.palette.size()));
	for (auto& c : b.palette) { o.push_back(c.red); o.push_back(c.green); o.push_back(c.blue); o.push_back(c.alpha); }
	ref::putU32(o, static_cast<uint32_t>(b.pixels.size()));
	o.insert(o.end(), b.pixels.begin(), b.pixels.end());
	return o;
}

// Which kind of writer a serialiser is handed is environment too: a growing memory writer, a file writer used in place, or a file
// writer that was moved (heap objects; the moved-from one is destroyed before anything is written). Set per pass by the executor.
int g_writerRoute = 0;
uint64_t g_writerSerial = 0;

template <class F> std::vector<uint8_t> toBytes(F&& writeTo) {
	std::vector<uint8_t> out;
	if (g_writerRoute == 0) {
		Stream::DynamicMemoryWriter w;
		writeTo(w);
		auto rd = w.GetReader();
		out.resize(static_cast<size_t>(rd.Length()));
		rd.Read(out.data(), out.size());
		return out;
	}
	std::string path = "_tw/o" + std::to_string(++g_writerSerial) + ".bin";
	disk::mkdirs("_tw");
	{
		auto w = std::make_unique<Stream::FileWriter>(path);
		if (g_writerRoute == 2) { auto moved = std::make_unique<Stream::FileWriter>(std::move(*w)); w.reset(); writeTo(*moved); }
		else writeTo(*w);
	}
	disk::get(path, out);
	return out;
}

std::string spellPath(const std::string& dir, const std::string& name, uint64_t sp) {
	switch (sp % 4) {
	case 0: return dir + "/" + name;
	case 1: return "./" + dir + "/" + name;
	case 2: return dir + "//" + name;
	default: return dir + "/./" + name;
	}
}

struct TwinEnv : Family {
	std::string name() const override { return "twin-env"; }

	Plan generate(const std::string&, Rng& r, bool thorough) override {
		Plan p;
		(void)thorough;
		// environment A in the usual keys, environment B in *_b keys
		p.setenv("heap", r.below(256));
		p.setenv("stack", r.below(256));
		p.setenv("shift", r.below(3000));
		uint64_t hb = r.below(256), sb = r.below(256);
		if (hb == p.envu("heap")) hb ^= 0x5a;
		if (sb == p.envu("stack")) sb ^= 0xa5;
		p.setenv("heap_b", hb);
		p.setenv("stack_b", sb);
		p.setenv("shift_b", 3000 + r.below(6000));
		static const uint64_t SR[] = {0, 1, 3, 7, 64, 1000, 4096};
		p.setenv("short_read", SR[r.below(7)]);
		p.setenv("short_read_b", SR[r.below(7)]);
		p.setenv("short_write", SR[r.below(7)]);
		p.setenv("short_write_b", SR[r.below(7)]);
		p.setenv("eintr", r.chance(1, 2) ? 0 : r.range(2, 5));
		p.setenv("eintr_b", r.chance(1, 2) ? 0 : r.range(2, 5));
		p.setenv("readdir", r.next() | 1);
		p.setenv("readdir_b", r.next() | 1);
		p.setenv("perm", hex64(r.next()));
		p.setenv("perm_b", hex64(r.next()));
		p.setenv("spell", r.below(4));
		p.setenv("spell_b", r.below(4));
		size_t nscen = static_cast<size_t>(r.range(2, 5));
		static const char* SC[] = {"vol", "clm", "defaults", "map", "bmp", "tileset", "prt"};
		// now and then: a reference-encoded volume with LZH members, one of which cannot be decoded to its end (it needs more symbol
		// updates than the counters hold); whether that member was asked for before the others, on the same object, is environment
		if (r.chance(1, 25)) { Line op = mkline("op", "volx"); op.set("seed", hex64(r.next())).set("n", r.range(2, 4)); p.ops.push_back(op); }
		for (size_t i = 0; i < nscen; ++i) {
			std::string sc = i == 0 ? "defaults" : SC[r.below(7)];
			Line op = mkline("op", sc);
			if (sc == "vol") {
				size_t nf = static_cast<size_t>(r.below(6));
				std::vector<std::string> names;
				for (size_t k = 0; k < nf; ++k) {
					std::string nm = randName(r, 1, 10, r.chance(1, 2));
					if (!names.empty() && r.chance(1, 3)) nm = tieProneSibling(names[r.below(names.size())], r);
					if (r.chance(1, 6)) nm = digestTwin(names, r, 12);
					if (!nm.empty() && nm[0] == '_') nm[0] = '^';
					bool clash = false;
					for (auto& o : names) if (ref::nameEqualNoCase(o, nm)) clash = true;
					if (clash) continue;
					names.push_back(nm);
					Line f = mkline("world", "file");
					f.set("name", quoteToken(nm)).set("cseed", hex64(r.next())).set("len", r.chance(1, 4) ? r.below(4) : r.below(700));
					p.world.push_back(f);
				}
			} else if (sc == "clm") {
				size_t nf = static_cast<size_t>(r.below(4));
				std::vector<std::string> names;
				for (size_t k = 0; k < nf; ++k) {
					std::string nm = randName(r, 1, 8, false);
					bool clash = false;
					for (auto& o : names) if (ref::nameEqualNoCase(o, nm)) clash = true;
					if (clash) continue;
					names.push_back(nm);
					Line f = mkline("world", "wav");
					f.set("name", nm).set("cseed", hex64(r.next())).set("len", r.below(400)).set("post", r.below(2));
					p.world.push_back(f);
				}
			} else if (sc == "map") {
				Line m = mkline("world", "map");
				m.set("seed", hex64(r.next())).set("lgw", r.below(7)).set("h", r.below(6)).set("nsrc", r.chance(1, 12) ? r.range(500, 540) : r.below(5)).set("nmap", r.below(5)).set("nter", r.below(2)).set("ngroups", r.below(4)).set("saved", r.below(3)).set("tag", 0x1011).set("trailing", 0);
				p.world.push_back(m);
			} else if (sc == "bmp") {
				static const int BITS[] = {1, 4, 8};
				int bits = BITS[r.below(3)];
				Line b = mkline("world", "bmp");
				b.set("seed", hex64(r.next())).set("bits", static_cast<uint64_t>(bits)).set("w", r.below(50)).set("h", std::to_string(static_cast<int64_t>(r.below(12)) - 6)).set("used", r.chance(1, 2) ? 0 : r.range(1, 1ull << bits)).set("junkhdr", 0);
				p.world.push_back(b);
			} else if (sc == "tileset") {
				Line t = mkline("world", "tileset");
				t.set("seed", hex64(r.next())).set("tiles", r.below(3)).set("bottomup", r.below(2));
				p.world.push_back(t);
			} else if (sc == "prt") {
				Line w = mkline("world", "prt");
				uint64_t npal = r.below(3);
				w.set("seed", hex64(r.next())).set("npal", npal).set("nimg", npal ? r.below(5) : 0).set("nanim", r.below(5)).set("canonical", 1);
				p.world.push_back(w);
			}
			p.ops.push_back(op);
		}
		return p;
	}

	// the generator in map.cpp is file-local; a reduced copy keeps this family self-contained
	static ref::RMap mapFromSpecLocal(const Line& l) {
		ref::RMap m;
		Rng r(l.u("seed", 1));
		m.lgW = static_cast<uint32_t>(l.u("lgw", 0));
		m.H = static_cast<uint32_t>(l.u("h", 0));
		if (m.lgW > 10 || m.H > 64) throw std::runtime_error("map spec too large");
		m.tag = static_cast<uint32_t>(l.u("tag", 0x1011));
		m.savedGame = static_cast<int32_t>(l.u("saved", 0));
		m.tiles.resize(static_cast<size_t>(m.H) << m.lgW);
		for (auto& t : m.tiles) t = static_cast<uint32_t>(r.next());
		for (auto& c : m.clip) c = static_cast<int32_t>(r.next());
		for (size_t i = 0, n = static_cast<size_t>(l.u("nsrc", 0)); i < n; ++i) { ref::RMap::Src s; if (!r.chance(1, 3)) { s.name = randName(r, 1, 8, false); s.numTiles = static_cast<uint32_t>(r.next()); } m.srcs.push_back(s); }
		for (size_t i = 0, n = static_cast<size_t>(l.u("nmap", 0)); i < n; ++i) { std::array<uint8_t, 8> a; auto v = prngBytes(r.next(), 8); memcpy(a.data(), v.data(), 8); m.mappings.push_back(a); }
		for (size_t i = 0, n = static_cast<size_t>(l.u("nter", 0)); i < n; ++i) { std::array<uint8_t, 264> a; auto v = prngBytes(r.next(), 264); memcpy(a.data(), v.data(), 264); m.terrains.push_back(a); }
		for (size_t i = 0, n = static_cast<size_t>(l.u("ngroups", 0)); i < n; ++i) { ref::RMap::Group g; g.w = static_cast<uint32_t>(r.below(4)); g.h = static_cast<uint32_t>(r.below(4)); g.idx.resize(static_cast<size_t>(g.w) * g.h); for (auto& x : g.idx) x = static_cast<uint32_t>(r.next()); g.name = randName(r, 0 + 1, 9, false); m.groups.push_back(g); }
		return m;
	}

	Outputs runPass(const Plan& base, const Env& e, RunCtx& ctx, const char* passName) {
		Plan plan = base; // callLib reads the stack fill from the plan
		plan.setenv("stack", e.stack);
		disk::wipe();
		resetDirOrdinal();
		g_alloc.heapFill = static_cast<unsigned char>(e.heap);
		g_writerRoute = static_cast<int>(e.stack % 3);
		g_fault.shortRead = static_cast<uint32_t>(e.shortRead);
		g_fault.shortWrite = static_cast<uint32_t>(e.shortWrite);
		g_fault.eintr = static_cast<uint32_t>(e.eintr == 1 ? 2 : e.eintr);
		g_fault.readdirSeed = e.readdir;
		void* shift = heapShiftAcquire(static_cast<size_t>(e.shift));
		Outputs out;
		std::string what;
		auto must = [&](Out o, const std::string& desc) { if (o != OkOut) ctx.fail("C18.bytes-equal", std::string(passName) + ": " + desc + " failed: " + what); };
		for (size_t oi = 0; oi < plan.ops.size(); ++oi) {
			const Line& op = plan.ops[oi];
			ctx.setOp(oi);
			const std::string& v = op.verb;
			std::string key = std::to_string(oi) + ":" + v;
			if (v == "defaults") {
				// objects produced by the library's own constructors / factories, serialised as they are
				must(callLib(plan, [&] { auto m = std::make_unique<Map>(); out[key + ":Map()"] = toBytes([&](Stream::Writer& w) { m->Write(w); }); }, &what), "writing a default-constructed Map");
				must(callLib(plan, [&] { auto a = std::make_unique<ArtFile>(); out[key + ":ArtFile()"] = toBytes([&](Stream::Writer& w) { a->Write(w); }); }, &what), "writing a value-initialised ArtFile");
				must(callLib(plan, [&] { auto b = std::make_unique<BitmapFile>(BitmapFile::CreateIndexed(4, 5, -3)); out[key + ":CreateIndexed"] = toBytes([&](Stream::Writer& w) { b->WriteIndexed(w); }); }, &what), "writing a factory-made bitmap");
				// WHEN in the program's life a call is made is environment too: one pass takes the results of a few calls made during static
				// initialisation (before main, ahead of the library's own initialisers), the other makes the same calls now
				{
					std::vector<LifetimeProbe> now;
					must(callLib(plan, [&] { now = computeLifetimeProbes(); }, &what), "the lifetime probes");
					const auto& pre = preMainLifetimeProbes();
					bool usePre = (e.stack & 4) != 0;
					for (size_t q = 0; q < now.size() && q < pre.size(); ++q) { const LifetimeProbe& lp = usePre ? pre[q] : now[q]; std::vector<uint8_t> v2 = lp.bytes; v2.push_back(lp.ok ? 1 : 0); out[key + ":life:" + lp.name] = v2; }
				}
			} else if (v == "vol") {
				struct In { std::string name; std::vector<uint8_t> data; };
				std::vector<In> ins;
				for (auto& l : plan.world) if (l.verb == "file") {
					// every vol scenario of a plan packs all file lines: names must be distinct ignoring case across the whole plan
					bool clash = false;
					std::string fileName = unquoteToken(l.get("name"));
					for (auto& o : ins) if (ref::nameEqualNoCase(o.name, fileName)) clash = true;
					if (!clash) ins.push_back(In{fileName, prngBytes(l.u("cseed"), static_cast<size_t>(l.u("len")))});
				}
				std::vector<std::string> list;
				std::string dir = "vin" + std::to_string(oi);
				for (auto& in : ins) { disk::put(dir + "/" + in.name, in.data); list.push_back(spellPath(dir, in.name, e.spell + list.size())); }
				Rng pr(e.perm);
				for (size_t i = list.size(); i > 1; --i) std::swap(list[i - 1], list[pr.below(i)]);
				std::string outp = "vout" + std::to_string(oi) + "/a.vol";
				// what already lies at the destinations is environment, not input: one of the two environments finds an older volume and
				// older extracted files of the same names and lengths there
				bool stale = (e.heap & 2) != 0;
				if (stale) disk::put(outp, prngBytes(e.perm, 300));
				must(callLib(plan, [&] { Archive::VolFile::CreateArchive(outp, list); }, &what), "VolFile::CreateArchive");
				disk::get(outp, out[key + ":vol-bytes"]);
				{
					std::string xdir = "vx" + std::to_string(oi);
					if (stale) for (auto& in : ins) { std::vector<uint8_t> old = digestDecoy(in.data, mix64(e.perm, in.data.size())); disk::put(xdir + "/" + in.name, old); }
					must(callLib(plan, [&] { Archive::VolFile vf(outp); vf.ExtractAllFiles(xdir); }, &what), "extracting the volume");
					for (auto& in : ins) { std::vector<uint8_t> f; if (disk::get(xdir + "/" + in.name, f)) out[key + ":vol-x:" + in.name] = f; }
				}
				std::vector<uint8_t> listing;
				must(callLib(plan, [&] { Archive::VolFile vf(outp); for (size_t i = 0; i < vf.GetCount(); ++i) { std::string n = vf.GetName(i); listing.insert(listing.end(), n.begin(), n.end()); listing.push_back(0); ref::putU32(listing, vf.GetSize(i)); ref::putU16(listing, static_cast<uint16_t>(vf.GetCompressionCode(i))); } }, &what), "listing the written volume");
				out[key + ":vol-listing"] = listing;
				// by-name queries on ONE live archive object; the order in which independent queries arrive is environment (each answer is
				// a function of the archive and the name asked for, not of what was asked before)
				{
					std::vector<std::string> asks;
					for (auto& in : ins) asks.push_back(in.name);
					for (auto& l : plan.world) if (l.verb == "file") { std::string n = unquoteToken(l.get("name")); bool have = false; for (auto& a : asks) if (a == n) have = true; if (!have) asks.push_back(n); }
					Rng qr(e.perm ^ 0x9e3779b97f4a7c15ull);
					for (size_t i = asks.size(); i > 1; --i) std::swap(asks[i - 1], asks[qr.below(i)]);
					must(callLib(plan, [&] {
						Archive::VolFile vf(outp);
						Archive::ArchiveFile& af = vf;
						for (auto& n : asks) {
							std::vector<uint8_t> ans;
							bool has = af.Contains(n);
							ans.push_back(has ? 1 : 0);
							try {
								size_t idx = af.GetIndex(n);
								ref::putU32(ans, static_cast<uint32_t>(idx));
								if (vf.GetCompressionCode(idx) == Archive::CompressionType::Uncompressed) { auto st = af.OpenStream(n); std::vector<uint8_t> b(static_cast<size_t>(st->Length())); if (!b.empty()) st->Read(b.data(), b.size()); ans.insert(ans.end(), b.begin(), b.end()); }
							} catch (const std::runtime_error&) { ans.push_back(0xee); }
							out[key + ":vol-q:" + n] = ans;
						}
					}, &what), "by-name queries");
				}
			} else if (v == "volx") {
				Rng xr(op.u("seed", 1));
				std::vector<ref::VolMember> ms;
				size_t n = static_cast<size_t>(op.u("n", 2));
				std::map<std::string, std::vector<uint8_t>> decoded;
				for (size_t k = 0; k < n; ++k) {
					ref::VolMember m;
					m.name = "m" + std::to_string(k) + ".lzh";
					std::vector<uint8_t> payload = prngBytes(xr.next(), 200 + static_cast<size_t>(xr.below(3000)));
					for (auto& c : payload) c = static_cast<uint8_t>('a' + c % 7);
					m.stored = ref::lzhEncode(ref::tokenize(payload, xr.next()));
					m.kind = 0x103;
					decoded[m.name] = ref::lzhDecode(m.stored).out;
					m.size = static_cast<uint32_t>(decoded[m.name].size());
					ms.push_back(m);
				}
				{
					// the member that runs into the counter capacity: more than 65221 codes (reference encoder with wide counters)
					ref::VolMember bad;
					bad.name = "m1x.lzh"; // sorts between m1 and m2
					bad.stored = ref::lzhEncode(ref::skewedTokens(xr.next(), 66000, 1, 2, false), nullptr, true);
					bad.kind = 0x103;
					bad.size = 70000;
					ms.insert(ms.begin() + 2 <= ms.end() ? ms.begin() + 2 : ms.end(), bad);
				}
				ref::VolImage im = ref::encodeVol(ms);
				std::string vp = "vxin" + std::to_string(oi) + "/x.vol";
				disk::put(vp, im.bytes);
				bool badFirst = (e.stack & 1) != 0;
				must(callLib(plan, [&] {
					Archive::VolFile vf(vp);
					auto extractBad = [&] { try { vf.ExtractFile(static_cast<Archive::ArchiveFile&>(vf).GetIndex("m1x.lzh"), "vxout" + std::to_string(oi) + "/bad.bin"); } catch (const std::runtime_error&) {} };
					disk::mkdirs("vxout" + std::to_string(oi) + "/_s");
					if (badFirst) extractBad();
					size_t q = 0;
					for (auto& m : ms) {
						if (m.name == "m1x.lzh") continue;
						std::string dst = "vxout" + std::to_string(oi) + "/" + m.name;
						vf.ExtractFile(static_cast<Archive::ArchiveFile&>(vf).GetIndex(m.name), dst);
						std::vector<uint8_t> f; disk::get(dst, f);
						out[key + ":volx:" + m.name] = f;
						if (!badFirst && q++ == 0) extractBad(); // the other environment meets the failing member later
					}
				}, &what), "extracting LZH members of a reference volume");
				for (auto& kv : decoded) if (out[key + ":volx:" + kv.first] != kv.second) ctx.count("probe.volx_extraction_differs_from_reference_decoder");
			} else if (v == "clm") {
				std::vector<std::string> list;
				std::string dir = "cin" + std::to_string(oi);
				std::vector<std::string> seenNames;
				for (auto& l : plan.world) if (l.verb == "wav") {
					bool clash = false;
					for (auto& o : seenNames) if (ref::nameEqualNoCase(o, l.get("name"))) clash = true;
					if (clash) continue;
					seenNames.push_back(l.get("name"));
					ref::WavSpec w;
					w.data = prngBytes(l.u("cseed"), static_cast<size_t>(l.u("len")));
					if (l.u("post", 0)) { ref::WavChunk c; c.tag = "LIST"; c.data = prngBytes(l.u("cseed") ^ 4, 10); w.afterData.push_back(c); }
					disk::put(dir + "/" + l.get("name") + ".wav", ref::encodeWav(w));
					list.push_back(spellPath(dir, l.get("name") + ".wav", e.spell + list.size()));
				}
				Rng pr(e.perm);
				for (size_t i = list.size(); i > 1; --i) std::swap(list[i - 1], list[pr.below(i)]);
				std::string outp = "cout" + std::to_string(oi) + "/a.clm";
				must(callLib(plan, [&] { Archive::ClmFile::CreateArchive(outp, list); }, &what), "ClmFile::CreateArchive");
				disk::get(outp, out[key + ":clm-bytes"]);
				if (e.heap & 2) {
					// stale extracted tracks of the same lengths at the destinations (environment, not input)
					size_t k = 0;
					std::vector<std::string> sorted = seenNames;
					std::sort(sorted.begin(), sorted.end(), [](const std::string& a, const std::string& b) { return ref::nameCompare(a, b) < 0; });
					for (auto& nm : sorted) for (auto& l : plan.world) if (l.verb == "wav" && l.get("name") == nm) { disk::put("cx" + std::to_string(oi) + "/" + std::to_string(k++) + ".wav", prngBytes(e.perm ^ k, 46 + static_cast<size_t>(l.u("len")))); break; }
				}
				must(callLib(plan, [&] { Archive::ClmFile cf(outp); for (size_t i = 0; i < cf.GetCount(); ++i) { std::string p = "cx" + std::to_string(oi) + "/" + std::to_string(i) + ".wav"; cf.ExtractFile(i, p); } }, &what), "extracting the CLM tracks");
				for (size_t i = 0; i < list.size(); ++i) { std::vector<uint8_t> wv; if (disk::get("cx" + std::to_string(oi) + "/" + std::to_string(i) + ".wav", wv)) out[key + ":wav" + std::to_string(i)] = wv; }
			} else if (v == "map") {
				for (auto& l : plan.world) if (l.verb == "map") {
					ref::RMap m = mapFromSpecLocal(l);
					std::vector<uint8_t> bytes = ref::encodeMap(m);
					must(callLib(plan, [&] {
						ReaderBox b = openBackend((e.heap & 1) ? "file" : "mem", bytes, "m" + std::to_string(oi), 7);
						auto mp = std::make_unique<Map>(Map::ReadMap(*b.rd));
						out[key + ":map-parse"] = dumpMap(*mp);
						out[key + ":map-bytes"] = toBytes([&](Stream::Writer& w) { mp->Write(w); });
					}, &what), "reading and rewriting a map");
					break;
				}
			} else if (v == "bmp") {
				for (auto& l : plan.world) if (l.verb == "bmp") {
					ref::RBmp bm = bmpFromSpec(l);
					std::vector<uint8_t> bytes = ref::encodeBmp(bm);
					must(callLib(plan, [&] {
						ReaderBox b = openBackend((e.heap & 1) ? "mem" : "file", bytes, "b" + std::to_string(oi), 7);
						auto bf = std::make_unique<BitmapFile>(BitmapFile::ReadIndexed(*b.rd));
						out[key + ":bmp-parse"] = dumpBitmap(*bf);
						out[key + ":bmp-bytes"] = toBytes([&](Stream::Writer& w) { bf->WriteIndexed(w); });
					}, &what), "reading and rewriting a bitmap");
					break;
				}
			} else if (v == "tileset") {
				for (auto& l : plan.world) if (l.verb == "tileset") {
					ref::RTileset t = tilesetFromSpec(l);
					bool bu = l.u("bottomup", 0) != 0;
					must(callLib(plan, [&] {
						std::vector<Color> pal(256);
						for (size_t i = 0; i < 256; ++i) { pal[i].red = t.palette[i][0]; pal[i].green = t.palette[i][1]; pal[i].blue = t.palette[i][2]; pal[i].alpha = t.palette[i][3]; }
						std::vector<uint8_t> px(t.rows.size());
						for (uint32_t y = 0; y < t.h; ++y) memcpy(px.data() + (bu ? (t.h - 1 - y) : y) * 32, t.rows.data() + y * 32, 32);
						BitmapFile src = BitmapFile::CreateIndexed(8, 32, bu ? static_cast<int32_t>(t.h) : -static_cast<int32_t>(t.h), pal, px);
						std::vector<uint8_t> custom = toBytes([&](Stream::Writer& w) { Tileset::WriteCustomTileset(w, src); });
						out[key + ":pbmp-bytes"] = custom;
						ReaderBox b = openBackend("mem", custom, "t", 7);
						out[key + ":pbmp-parse"] = dumpBitmap(Tileset::ReadTileset(*b.rd));
					}, &what), "writing and reloading a custom tileset");
					break;
				}
			} else if (v == "prt") {
				for (auto& l : plan.world) if (l.verb == "prt") {
					ref::RPrt m = prtFromSpec(l);
					std::vector<uint8_t> bytes = ref::encodePrt(m);
					must(callLib(plan, [&] {
						ReaderBox b = openBackend((e.heap & 1) ? "file" : "mem", bytes, "p" + std::to_string(oi), 7);
						auto a = std::make_unique<ArtFile>(ArtFile::Read(*b.rd));
						out[key + ":prt-parse"] = dumpArt(*a);
						out[key + ":prt-bytes"] = toBytes([&](Stream::Writer& w) { a->Write(w); });
					}, &what), "reading and rewriting PRT metadata");
					break;
				}
			} else throw std::runtime_error("unknown op " + v);
		}
		heapShiftRelease(shift);
		return out;
	}

	void execute(const Plan& plan, RunCtx& ctx) override {
		Env a{plan.envu("heap"), plan.envu("stack"), plan.envu("shift"), plan.envu("short_read"), plan.envu("short_write"), plan.envu("eintr"), plan.envu("readdir"), plan.envu("perm", 1), plan.envu("spell")};
		Env b{plan.envu("heap_b", a.heap ^ 0x5a), plan.envu("stack_b", a.stack ^ 0xa5), plan.envu("shift_b", a.shift + 4096), plan.envu("short_read_b"), plan.envu("short_write_b"), plan.envu("eintr_b"), plan.envu("readdir_b"), plan.envu("perm_b", 2), plan.envu("spell_b")};
		for (auto& op : plan.ops) ctx.schedNote(op.verb);
		Outputs oa = runPass(plan, a, ctx, "environment A");
		Outputs ob = runPass(plan, b, ctx, "environment B");
		if (oa.size() != ob.size()) ctx.fail("C18.bytes-equal", "the two environments produced a different number of outputs");
		for (auto& kv : oa) {
			auto it = ob.find(kv.first);
			if (it == ob.end()) ctx.fail("C18.bytes-equal", "output " + kv.first + " missing in environment B");
			if (kv.second != it->second) {
				ctx.setOp(static_cast<size_t>(atoi(kv.first.c_str())));
				size_t d = 0;
				while (d < kv.second.size() && d < it->second.size() && kv.second[d] == it->second[d]) ++d;
				bool parse = kv.first.find("-parse") != std::string::npos || kv.first.find("-listing") != std::string::npos;
				ctx.fail(parse ? "C18.parse-equal" : "C18.bytes-equal", "output '" + kv.first + "' differs between two environments (heap fill " + std::to_string(a.heap) + "/" + std::to_string(b.heap) + ", stack fill " + std::to_string(a.stack) + "/" + std::to_string(b.stack) +
				         ", different list order, path spelling, readdir order and I/O chunking) at byte " + std::to_string(d) + " of " + std::to_string(kv.second.size()) + "/" + std::to_string(it->second.size()) + ": A=" + hexBytes(kv.second.data() + d, std::min<size_t>(8, kv.second.size() - d)) + " B=" + hexBytes(it->second.data() + d, std::min<size_t>(8, it->second.size() - d)));
			}
			ctx.event(kv.first + " " + hex64(fnv1a(kv.second.data(), kv.second.size())));
		}
		ctx.nontrivial = !oa.empty();
		ctx.count("library_calls", plan.ops.size() * 6);
		ctx.count("probe.twin_outputs_compared", oa.size());
	}
	std::string signatureDetail(const Plan& p, const Violation& v) override { return v.opIndex < p.ops.size() ? p.ops[v.opIndex].verb : ""; }
};
FamilyRegistrar regTwinEnv(new TwinEnv);

} // namespace
} // namespace sim

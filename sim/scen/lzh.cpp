// Family "lzh-drain" (C04): the LZH decompressor against the independent reference decoder, for
// encoder-produced, random, constant, damaged and over-capacity inputs, drained by a seeded schedule
// mixing GetData(n) of boundary sizes with GetInternalBuffer, and through VolFile::ExtractFile.
#include "common.h"
#include "../models/reflzh.h"
#include "../models/refvol.h"
#include "Archive/VolFile.h"
#include <cstring>
#include <memory>
#include <stdexcept>

using namespace OP2Utility;

namespace sim {
namespace {

struct LzhInput {
	std::vector<uint8_t> bytes;
	std::vector<uint8_t> payload; // only for mode payload
	size_t tokens = 0;
	int longestCode = 0;
	std::string mode;
};

LzhInput buildInput(const Plan& plan) {
	LzhInput in;
	for (auto& l : plan.world) {
		if (l.verb != "lzh") continue;
		in.mode = l.get("mode", "random");
		uint64_t seed = l.u("seed", 1);
		size_t n = static_cast<size_t>(l.u("n", 0));
		if (n > (1u << 20)) throw std::runtime_error("lzh input too large");
		if (in.mode == "tokens") {
			ref::LzhTokens t = ref::randomTokens(seed, n);
			in.bytes = ref::lzhEncode(t, &in.tokens);
		} else if (in.mode == "payload") {
			in.payload = prngBytes(seed, n);
			uint64_t alpha = l.u("alpha", 256);
			if (alpha < 256) for (auto& c : in.payload) c = static_cast<uint8_t>('a' + c % (alpha ? alpha : 1));
			// repeat earlier stretches so long matches exist
			if (l.u("repeat", 0)) { Rng r(seed ^ 0x77); for (size_t i = 64; i + 80 < in.payload.size(); i += 40 + r.below(200)) { size_t from = r.below(i), len = 3 + r.below(70); for (size_t k = 0; k < len && i + k < in.payload.size(); ++k) in.payload[i + k] = in.payload[from + k]; } }
			ref::LzhTokens t = ref::tokenize(in.payload, l.u("tseed", 1));
			in.bytes = ref::lzhEncode(t, &in.tokens);
			if (in.tokens != t.size()) in.payload.clear(); // capacity reached inside the payload: prefix clause not applicable
		} else if (in.mode == "skewed") {
			// may exceed the counter capacity: encoded with wide counters, one symbol dominating the statistics
			ref::LzhTokens t = ref::skewedTokens(seed, n, l.u("num", 1), l.u("den", 1), l.u("dommatch", 0) != 0);
			in.bytes = ref::lzhEncode(t, &in.tokens, true);
		} else if (in.mode == "fib") {
			// Fibonacci-like frequencies: the deepest code tree the counters allow, inside the capacity
			ref::LzhTokens t = ref::fibonacciTokens(seed, static_cast<size_t>(l.u("levels", 20)), n, l.u("base", 1));
			in.bytes = ref::lzhEncode(t, &in.tokens);
			in.longestCode = ref::lzhLongestCodeBits();
		} else if (in.mode == "equal") {
			in.bytes.assign(n, static_cast<uint8_t>(l.u("value", 0)));
		} else if (in.mode == "random") {
			in.bytes = prngBytes(seed, n);
		} else throw std::runtime_error("bad lzh mode " + in.mode);
		if (l.has("trunc")) { size_t k = static_cast<size_t>(l.u("trunc")); if (!in.bytes.empty()) in.bytes.resize(k % (in.bytes.size() + 1)); in.payload.clear(); }
		for (int f = 0; f < 8; ++f) {
			std::string key = "flip" + std::to_string(f);
			if (!l.has(key) || in.bytes.empty()) continue;
			uint64_t bit = l.u(key) % (in.bytes.size() * 8);
			in.bytes[bit >> 3] ^= static_cast<uint8_t>(0x80 >> (bit & 7));
			in.payload.clear();
		}
	}
	return in;
}

struct LzhDrain : Family {
	std::string name() const override { return "lzh-drain"; }

	Plan generate(const std::string&, Rng& r, bool thorough) override {
		Plan p;
		swarmEnv(p, r, true, true);
		p.setenv("watchdog", 120);
		Line w = mkline("world", "lzh");
		uint64_t k = r.below(100);
		size_t maxRandom = thorough ? 100000 : 12000;
		if (k < 30) { w.set("mode", "tokens").set("seed", hex64(r.next())).set("n", r.chance(1, 8) ? r.below(20) : r.below(thorough ? 6000 : 1500)); }
		else if (k < 60) { w.set("mode", "payload").set("seed", hex64(r.next())).set("n", r.chance(1, 8) ? r.below(10) : r.below(thorough ? 60000 : 9000)).set("alpha", r.chance(1, 2) ? 256 : 1 + r.below(6)).set("repeat", r.below(2)).set("tseed", hex64(r.next())); }
		else if (k < 80) { w.set("mode", "random").set("seed", hex64(r.next())).set("n", r.chance(1, 6) ? r.below(6) : r.below(maxRandom)); }
		else if (k < 90) { w.set("mode", "equal").set("value", r.chance(1, 2) ? (r.chance(1, 2) ? 0 : 255) : r.below(256)).set("n", r.below(3000)); }
		else { // over capacity: more than 65221 codes
			if (r.chance(1, 3)) w.set("mode", "equal").set("value", r.chance(1, 2) ? 0 : 255).set("n", r.range(9000, 20000));
			else if (r.chance(1, 3)) {
				// base 1: plain Fibonacci counts; base just above the joint weight of the ~300 symbols never used: the chain sits on top of them
				bool plainFib = r.chance(1, 3);
				w.set("mode", "fib").set("seed", hex64(r.next())).set("base", plainFib ? 1 : r.range(305, 450)).set("levels", plainFib ? r.range(16, 23) : r.range(8, 10)).set("n", r.range(50, 3000));
			}
			else if (r.chance(1, 2)) {
				// token streams that run past the capacity with one symbol dominating (its leaf sits high in the tree at that point)
				static const uint64_t NUM[] = {1, 9, 3, 2, 1, 1}, DEN[] = {1, 10, 4, 3, 2, 3};
				size_t q = r.below(6);
				bool dm = r.chance(1, 4);
				w.set("mode", "skewed").set("seed", hex64(r.next())).set("n", r.range(65000, 69000)).set("num", NUM[q]).set("den", DEN[q]).set("dommatch", dm ? 1 : 0);
			}
			else w.set("mode", "random").set("seed", hex64(r.next())).set("n", r.range(110000, 160000));
		}
		if (k < 80 && r.chance(1, 4)) {
			if (r.chance(1, 2)) w.set("trunc", r.below(100000));
			else { size_t nf = static_cast<size_t>(r.range(1, 8)); for (size_t f = 0; f < nf; ++f) w.set("flip" + std::to_string(f), r.below(1u << 20)); }
		}
		// streams that decode to megabytes (everything in the over-capacity group, the Fibonacci streams): extracted through the volume
		// route with byte-sized transfers they would make millions of intercepted calls inside ONE library call and run into the
		// per-call I/O budget, which exists to catch endless loops - keep short transfers, but not below 64 bytes
		if (k >= 90) coarsenFaultsForBigWorld(p);
		p.world.push_back(w);
		static const uint64_t SZ[] = {0, 1, 2, 3, 59, 60, 61, 62, 63, 4034, 4035, 4095, 4096, 4097, 8192};
		size_t nops = static_cast<size_t>(r.range(1, 40));
		uint64_t style = r.below(5); // 0 mixed, 1 only getdata small, 2 only getbuf, 3 getdata big, 4 mixed with many tiny
		for (size_t i = 0; i < nops; ++i) {
			Line op;
			bool buf = style == 2 || (style == 0 && r.chance(1, 3)) || (style == 4 && r.chance(1, 5));
			if (buf) op = mkline("op", "getbuf");
			else {
				op = mkline("op", "getdata");
				uint64_t n;
				if (style == 1) n = 1 + r.below(70);
				else if (style == 3) n = r.chance(1, 2) ? 4096 + r.below(9000) : SZ[9 + r.below(6)];
				else n = r.chance(1, 2) ? SZ[r.below(15)] : (r.chance(1, 2) ? r.below(200) : r.below(20000));
				op.set("n", n);
			}
			p.ops.push_back(op);
		}
		p.ops.push_back(mkline("op", r.chance(1, 2) ? "extract" : "drainall"));
		return p;
	}

	void execute(const Plan& plan, RunCtx& ctx) override {
		LzhInput in = buildInput(plan);
		if (in.longestCode > 16) ctx.count("probe.code_longer_than_16_bits");
		if (in.longestCode > 18) ctx.count("probe.code_longer_than_18_bits");
		if (in.longestCode > 20) ctx.count("probe.code_longer_than_20_bits");
		ref::LzhDecoded D = ref::lzhDecode(in.bytes);
		bool emptyInput = in.bytes.empty();
		if (D.capacityError) ctx.count("probe.capacity_reached");
		if (D.out.size() > 4096) ctx.count("probe.ring_wrapped");
		if (!in.payload.empty()) {
			// oracle-side law (reference encoder + reference decoder): payload prefix and < 8 padding codes
			if (D.out.size() < in.payload.size() || memcmp(D.out.data(), in.payload.data(), in.payload.size()) != 0 || D.codes - in.tokens >= 8)
				throw std::runtime_error("reference codec self-check failed: decode(encode(payload)) does not start with the payload or runs on for >= 8 codes");
		}
		std::unique_ptr<char[]> src(new char[in.bytes.size()]);
		memcpy(src.get(), in.bytes.data(), in.bytes.size());
		std::vector<uint8_t> got;
		bool threw = false, exhausted = false;
		std::string what;
		std::unique_ptr<Archive::HuffLZ> dec;
		Out o = callLib(plan, [&] { dec = std::make_unique<Archive::HuffLZ>(Archive::BitStreamReader(src.get(), in.bytes.size())); }, &what);
		if (o != OkOut) ctx.fail("C04.equals-reference", "constructing the decompressor over " + std::to_string(in.bytes.size()) + " bytes failed: " + what);
		size_t calls = 0;
		size_t cloneAt = (mix64(plan.seed, 0xC0) % 3 == 0) ? 1 + static_cast<size_t>(mix64(plan.seed, 0xC1) % 12) : SIZE_MAX;
		size_t lastRequested = 0; // upper bound on the decoded bytes the most recent call could lose if it fails
		auto step = [&](const Line& op) {
			++calls;
			lastRequested = op.verb == "getbuf" ? 4096 : std::max<size_t>(4096, static_cast<size_t>(std::min<uint64_t>(op.u("n", 1), 1u << 20))); // what a failing call may lose: what it was asked for, or a window's worth it had decoded
			if (calls == cloneAt) {
				// value semantics: the decoder in use is replaced by a copy of itself (the original is destroyed) or by one moved out
				// of such a copy; the copy must continue the same byte sequence
				o = callLib(plan, [&] {
					if constexpr (std::is_copy_constructible<Archive::HuffLZ>::value && std::is_move_constructible<Archive::HuffLZ>::value) {
						auto c = std::make_unique<Archive::HuffLZ>(*dec);
						if (mix64(plan.seed, 0xC2) & 1) { auto d = std::make_unique<Archive::HuffLZ>(std::move(*c)); c = std::move(d); }
						dec = std::move(c);
					}
				}, &what);
				if (o != OkOut) ctx.fail("C04.schedule-invariant", "copying a live decompressor failed: " + what);
				ctx.count("probe.decoder_cloned_mid_stream");
			}
			if (op.verb == "getbuf") {
				const char* ptr = nullptr;
				size_t n = 0;
				o = callLib(plan, [&] { ptr = dec->GetInternalBuffer(&n); }, &what);
				if (o == ErrOther) ctx.fail("C04.capacity-error", "GetInternalBuffer threw a non-std exception");
				if (o != OkOut) { threw = true; return; }
				if (n > 4096) ctx.fail("C04.memory", "GetInternalBuffer reports " + std::to_string(n) + " available bytes from a 4096-byte window");
				if (n == 0) { exhausted = true; return; }
				got.insert(got.end(), ptr, ptr + n);
				ctx.event("buf " + std::to_string(n));
			} else {
				size_t n = static_cast<size_t>(op.u("n", 1));
				if (n > (1u << 20)) n = 1u << 20;
				std::unique_ptr<char[]> buf(new char[n]);
				size_t k = 0;
				o = callLib(plan, [&] { k = dec->GetData(buf.get(), n); }, &what);
				if (o == ErrOther) ctx.fail("C04.capacity-error", "GetData threw a non-std exception");
				if (o != OkOut) { threw = true; return; }
				if (k > n) ctx.fail("C04.memory", "GetData(" + std::to_string(n) + ") reports " + std::to_string(k) + " bytes copied");
				got.insert(got.end(), buf.get(), buf.get() + k);
				if (n > 0 && k < n) exhausted = true;
				if (n >= 60 && n <= 63) ctx.count("probe.getdata_near_match_length");
				ctx.event("data " + std::to_string(n) + " " + std::to_string(k));
			}
		};
		size_t limit = D.out.size() + 70000;
		auto checkPrefix = [&](const std::string& when) {
			size_t n = got.size() < D.out.size() ? got.size() : D.out.size();
			if (emptyInput) return; // the format defines nothing for a 0-byte input: not asserted
			if (memcmp(got.data(), D.out.data(), n) != 0) {
				size_t d = 0;
				while (d < n && got[d] == D.out[d]) ++d;
				ctx.fail("C04.equals-reference", when + ": output differs from the reference decoder at byte " + std::to_string(d) + " (input mode " + in.mode + ", " + std::to_string(in.bytes.size()) + " compressed bytes)");
			}
			if (got.size() > D.out.size()) ctx.fail(D.capacityError ? "C04.capacity-error" : "C04.equals-reference", when + ": decompressor delivered " + std::to_string(got.size()) + " bytes, the reference decoder " + (D.capacityError ? "stops with a capacity error after " : "ends after ") + std::to_string(D.out.size()));
		};
		size_t oi = 0;
		bool extract = false;
		for (; oi < plan.ops.size() && !threw && !exhausted; ++oi) {
			const Line& op = plan.ops[oi];
			ctx.setOp(oi);
			ctx.schedNote(op.verb + op.get("n", ""));
			if (op.verb == "extract") { extract = true; continue; }
			if (op.verb == "drainall") continue;
			if (op.verb != "getdata" && op.verb != "getbuf") throw std::runtime_error("unknown op " + op.verb);
			step(op);
			checkPrefix("during the drain");
		}
		for (auto& op : plan.ops) if (op.verb == "extract") extract = true;
		// keep draining with the plan's own pattern (cyclically) until exhaustion
		std::vector<Line> pattern;
		for (auto& op : plan.ops) if (op.verb == "getbuf" || (op.verb == "getdata" && op.u("n", 1) > 0)) pattern.push_back(op);
		if (pattern.empty()) { Line l = mkline("op", "getdata"); l.set("n", 4096); pattern.push_back(l); }
		ctx.setOp(plan.ops.empty() ? 0 : plan.ops.size() - 1);
		Line bulk = mkline("op", "getdata");
		for (size_t i = 0; !threw && !exhausted; ++i) {
			// the plan's own pattern for the first 3000 continuation steps; a long output is then drained in growing pieces so that a
			// megabyte stream read byte by byte does not take minutes (the drain-schedule clause is decided by the steps before)
			if (i >= 3000) { bulk.set("n", 512 + (i - 3000) % 7919); step(bulk); }
			else step(pattern[i % pattern.size()]);
			checkPrefix("during the drain");
			if (got.size() > limit || calls > 4000000) ctx.fail("C04.terminates", "drain does not come to an end");
		}
		if (threw) {
			if (!D.capacityError) ctx.fail("C04.equals-reference", "decompressor raised an error (" + what + ") after " + std::to_string(got.size()) + " bytes; the reference decoder decodes the whole input to " + std::to_string(D.out.size()) + " bytes");
			ctx.count("probe.capacity_error_raised");
			// "ends in an error at that point instead of continuing": whatever is asked of the decoder (or of a copy of it) after the
			// capacity error, it does not decode on. A call that failed may have handed over part of what it was asked for before it
			// threw (those bytes are lost to the caller), so what arrives afterwards must be the reference output from the position
			// reached so far plus a gap of at most the sizes asked for by the failed GetData calls - never anything else, never beyond
			// what the reference decodes up to the capacity point
			if (D.capacityError) {
				// candidate positions of the decoder's read cursor in the reference output (a failed call loses an unknown number of
				// decoded bytes, at most what it was asked for or a window's worth; a short chunk may match at several places)
				std::vector<size_t> cand;
				auto widen = [&](size_t by) {
					std::vector<size_t> next;
					size_t reach = 0; bool have = false;
					for (size_t p0 : cand) { size_t from = have && p0 <= reach ? reach + 1 : p0, to = std::min(p0 + by, D.out.size()); for (size_t q2 = from; q2 <= to; ++q2) next.push_back(q2); if (to >= reach || !have) { reach = to; have = true; } if (next.size() > 3000000) break; }
					cand.swap(next);
				};
				cand.push_back(got.size());
				widen(lastRequested);
				bool gaveUp = false;
				for (size_t q = 0; q < 6 && !gaveUp; ++q) {
					threw = false; exhausted = false;
					if (q == 3) callLib(plan, [&] { if constexpr (std::is_copy_constructible<Archive::HuffLZ>::value) { auto c = std::make_unique<Archive::HuffLZ>(*dec); dec = std::move(c); } }, &what);
					size_t before = got.size();
					step(pattern[q % pattern.size()]);
					if (threw) { widen(lastRequested); if (cand.size() > 3000000) gaveUp = true; continue; }
					std::vector<uint8_t> chunk(got.begin() + static_cast<long>(before), got.end());
					got.resize(before);
					if (chunk.empty()) continue;
					std::vector<size_t> next;
					for (size_t p0 : cand) if (p0 + chunk.size() <= D.out.size() && memcmp(D.out.data() + p0, chunk.data(), chunk.size()) == 0) next.push_back(p0 + chunk.size());
					if (next.empty()) ctx.fail("C04.capacity-error", "after the capacity error was raised the decompressor delivered " + std::to_string(chunk.size()) + " more bytes that are not reference output at any position it can have reached (" + std::to_string(cand.size()) + " candidates from " + std::to_string(cand.front()) + ") - it decoded on, or beyond the " + std::to_string(D.out.size()) + " bytes the reference produces up to the capacity point");
					cand.swap(next);
				}
				if (gaveUp) ctx.count("probe.post_error_alignment_gave_up");
				threw = true;
				ctx.count("probe.requests_after_capacity_error");
			}
		} else {
			if (D.capacityError) ctx.fail("C04.capacity-error", "input needs more than 65221 symbol updates: the reference decoder stops with a capacity error after " + std::to_string(D.out.size()) + " bytes, the decompressor reported a normal end after " + std::to_string(got.size()));
			if (!emptyInput && got.size() != D.out.size()) ctx.fail("C04.equals-reference", "decompressor ended after " + std::to_string(got.size()) + " bytes, the reference decoder produces " + std::to_string(D.out.size()));
		}
		{ Armed a; dec.reset(); }
		// second schedule: internal buffer only (what VolFile::ExtractFileLzh does) must give the same bytes
		{
			std::vector<uint8_t> got2;
			bool threw2 = false;
			o = callLib(plan, [&] {
				Archive::HuffLZ d2(Archive::BitStreamReader(src.get(), in.bytes.size()));
				for (;;) { size_t n = 0; const char* ptr = d2.GetInternalBuffer(&n); if (!n) break; got2.insert(got2.end(), ptr, ptr + n); if (got2.size() > limit) break; }
			}, &what);
			if (o == ErrOther) ctx.fail("C04.capacity-error", "non-std exception");
			threw2 = o != OkOut;
			if (threw2 != threw) ctx.fail("C04.schedule-invariant", std::string("one drain schedule ends in an error, the other does not (mixed schedule: ") + (threw ? "error" : "normal end") + ")");
			size_t n = got2.size() < got.size() ? got2.size() : got.size();
			if (!emptyInput && (memcmp(got2.data(), got.data(), n) != 0 || (!threw && got2.size() != got.size()))) ctx.fail("C04.schedule-invariant", "internal-buffer drain produced " + std::to_string(got2.size()) + " bytes, the mixed schedule " + std::to_string(got.size()) + ", or their contents differ");
		}
		if (extract && in.bytes.size() < (1u << 20)) {
			ref::VolMember m;
			m.name = "packed.bin";
			m.stored = in.bytes;
			m.size = static_cast<uint32_t>(D.out.size());
			m.kind = 0x103;
			ref::VolImage im = ref::encodeVol({m}, 0);
			disk::put("l.vol", im.bytes);
			o = callLib(plan, [&] { Archive::VolFile v("l.vol"); v.ExtractFile(0, "_x/out.bin"); }, &what);
			if (o == ErrOther) ctx.fail("C04.extract-equals", "non-std exception");
			if (D.capacityError) { if (o == OkOut) ctx.fail("C04.capacity-error", "extracting an LZH member that exceeds the decoder's counter capacity succeeded"); }
			else if (!emptyInput) {
				if (o != OkOut) ctx.fail("C04.extract-equals", "extracting an LZH member failed: " + what);
				std::vector<uint8_t> f;
				if (!disk::get("_x/out.bin", f) || f != D.out) ctx.fail("C04.extract-equals", "extracted LZH member has " + std::to_string(f.size()) + " bytes; the reference decoder produces " + std::to_string(D.out.size()) + " (or contents differ)");
			}
			ctx.count("probe.extract_lzh_member");
		}
		ctx.nontrivial = !D.out.empty() && !emptyInput;
		ctx.count("library_calls", calls);
		ctx.count("probe.mode_" + in.mode);
		ctx.event("end " + std::to_string(got.size()) + " " + hex64(fnv1a(got.data(), got.size())) + (threw ? " error" : " eos"));
	}
	std::string signatureDetail(const Plan& p, const Violation&) override {
		for (auto& l : p.world) if (l.verb == "lzh") return l.get("mode", "");
		return "";
	}
};
FamilyRegistrar regLzhDrain(new LzhDrain);

} // namespace
} // namespace sim

// Family "archive-damage" (C05, fault enumeration): a small valid VOL / CLM / WAV from the reference
// encoders, then EVERY structure-guided damage variant of it (all prefixes, field x boundary grid,
// multi-field templates, flips, splices). Each damaged archive is opened once as a long-lived object
// and driven through a seeded call sequence; every call is also made on a freshly opened object and
// the outcomes must agree (a failed call must leave the archive as usable as before). Member streams
// must deliver exactly the file bytes at the recorded extent, or be refused.
#include "volworld.h"
#include "../models/refclm.h"
#include "../seams/damage.h"
#include "Archive/ClmFile.h"
#include "Archive/VolFile.h"
#include <memory>
#include "Stream/SliceReader.h"
#include <stdexcept>
#include <unordered_set>

using namespace OP2Utility;

namespace sim {
namespace {

struct CallResult {
	Out out = OkOut;
	uint64_t value = 0;
	bool isStream = false;
	std::vector<uint8_t> bytes;
	std::string what;
	std::vector<size_t> sameName; // stream obtained BY NAME: every listed member carrying that name (ignoring case)
};

struct Target {
	std::string kind;             // vol | clm | wav
	std::vector<uint8_t> bytes;   // the valid image
	std::vector<Field> fields;
	size_t headerLen = 0;
	std::vector<std::string> names;
	std::string path;
	std::vector<std::string> extraWavs; // good WAVs offered along with the damaged one
};

Target buildTarget(const Plan& plan) {
	Target t;
	for (auto& l : plan.world) if (l.verb == "target") t.kind = l.get("kind", "vol");
	if (t.kind == "vol") {
		uint32_t spare;
		std::vector<Member> ms = membersFromWorld(plan, spare);
		ref::VolImage im = imageOf(ms, spare);
		t.bytes = im.bytes;
		for (auto& f : im.fields) t.fields.push_back(Field{f.name, f.off, f.width});
		t.headerLen = im.headerEnd;
		for (auto& m : ms) t.names.push_back(m.name);
		t.path = "a.vol";
	} else if (t.kind == "clm") {
		ref::WaveFormat fmt;
		std::vector<ref::ClmMember> ms;
		for (auto& l : plan.world) {
			if (l.verb == "fmt") { fmt.tag = static_cast<uint16_t>(l.u("tag", 1)); fmt.channels = static_cast<uint16_t>(l.u("ch", 1)); fmt.rate = static_cast<uint32_t>(l.u("rate", 22050)); fmt.avg = static_cast<uint32_t>(l.u("avg", 44100)); fmt.align = static_cast<uint16_t>(l.u("align", 2)); fmt.bits = static_cast<uint16_t>(l.u("bits", 16)); }
			if (l.verb == "track") { ref::ClmMember m; m.name = l.get("name", "a").substr(0, 8); m.data = prngBytes(l.u("cseed"), static_cast<size_t>(l.u("len"))); ms.push_back(m); }
		}
		std::sort(ms.begin(), ms.end(), [](const ref::ClmMember& a, const ref::ClmMember& b) { return ref::nameCompare(a.name, b.name) < 0; });
		ref::ClmImage im = ref::encodeClm(fmt, ms);
		t.bytes = im.bytes;
		for (auto& f : im.fields) t.fields.push_back(Field{f.name, f.off, f.width});
		t.headerLen = 60 + 16 * ms.size();
		for (auto& m : ms) t.names.push_back(m.name);
		t.path = "a.clm";
	} else if (t.kind == "wav") {
		ref::WavSpec w;
		int n = 0;
		for (auto& l : plan.world) {
			if (l.verb != "wav") continue;
			ref::WavSpec s;
			uint64_t cs = l.u("cseed", 1);
			Rng r(cs);
			auto chunks = [&](uint64_t count) { std::vector<ref::WavChunk> v; for (uint64_t i = 0; i < count && i < 4; ++i) { ref::WavChunk c; c.tag = r.chance(1, 2) ? "LIST" : "JUNK"; c.data = prngBytes(r.next(), static_cast<size_t>(2 * r.below(12))); v.push_back(c); } return v; };
			s.beforeFmt = chunks(l.u("pre", 0));
			s.between = chunks(l.u("mid", 0));
			s.afterData = chunks(l.u("post", 0));
			s.fmt16 = l.u("fmt16", 0) != 0;
			s.data = prngBytes(cs ^ 9, static_cast<size_t>(l.u("len", 0)));
			if (n == 0) {
				std::vector<ref::WavField> wf;
				t.bytes = ref::encodeWav(s, &wf);
				for (auto& f : wf) t.fields.push_back(Field{f.name, f.off, f.width});
				t.headerLen = t.bytes.size() - s.data.size();
				if (t.headerLen > t.bytes.size()) t.headerLen = t.bytes.size();
			} else {
				std::string p = "good" + std::to_string(n) + ".wav";
				disk::put(p, ref::encodeWav(s));
				t.extraWavs.push_back(p);
			}
			++n;
		}
		t.path = "dmg.wav";
	} else throw std::runtime_error("bad target kind " + t.kind);
	if (t.bytes.size() > (64u << 10)) throw std::runtime_error("archive-damage target too large");
	return t;
}

std::vector<Line> enumerateVariants(const Target& t, uint64_t seed, bool thorough) {
	std::vector<Line> v = enumerateGenericDamage(t.bytes, t.fields, t.headerLen, seed, thorough);
	auto multi = [&]() { return mkline("damage", "multi"); };
	if (t.kind == "vol") {
		for (uint64_t d : {1, 2, 3, 13, 14, 15, 27, 28, 29}) {
			Line l = multi(); l.set("f1", "voli.len").set("v1", "+" + std::to_string(d)).set("f2", "VOL.len").set("v2", "+" + std::to_string(d)); v.push_back(l);
			Line m = l; m.set("extend", d); v.push_back(m);
		}
		// a name terminator overwritten: fewer names than index entries
		const Field* T = findField(t.fields, "T");
		if (T) {
			uint64_t tl = readField(t.bytes, *T);
			for (size_t i = 28; i < 28 + tl && i < t.bytes.size(); ++i) if (t.bytes[i] == 0) { Line l = multi(); l.set("poke", i).set("pokeval", 0x78); v.push_back(l); }
			for (uint64_t d : {1, 2, 3, 4, 5, 8}) {
				Line l = multi(); l.set("f1", "T").set("v1", "-" + std::to_string(d)); v.push_back(l);
				Line m = multi(); m.set("f1", "T").set("v1", "+" + std::to_string(d)); v.push_back(m);
				Line k = multi(); k.set("f1", "vols.len").set("v1", "+" + std::to_string(4 * d)).set("f2", "VOL.len").set("v2", "+" + std::to_string(4 * d)); v.push_back(k);
			}
		}
		for (size_t i = 0; i < t.names.size(); ++i) {
			std::string e = "e" + std::to_string(i) + ".", b = "b" + std::to_string(i) + ".";
			for (const char* val : {"+1", "-1", "+4", "0x7fffffff", "0xffffffff"}) { Line l = multi(); l.set("f1", e + "size").set("v1", val).set("f2", b + "len").set("v2", val); v.push_back(l); }
			Line l = multi(); l.set("f1", e + "kind").set("v1", "0x103"); v.push_back(l); // stored member relabelled LZH
		}
	} else if (t.kind == "clm") {
		for (uint64_t d : {1, 2, 3, 16, 255}) { Line l = multi(); l.set("f1", "count").set("v1", "+" + std::to_string(d)).set("extend", 16 * d); v.push_back(l); }
		for (size_t i = 0; i < t.names.size(); ++i) {
			std::string e = "e" + std::to_string(i) + ".";
			for (const char* val : {"0xffffffff", "0xfffffff0", "0x80000000"}) { Line l = multi(); l.set("f1", e + "offset").set("v1", val).set("f2", e + "length").set("v2", "+32"); v.push_back(l); }
			Line l = multi(); l.set("f1", e + "offset").set("v1", "+1").set("f2", e + "length").set("v2", "-1"); v.push_back(l);
		}
	} else {
		for (auto& f : t.fields) if (f.name.size() > 4 && f.name.compare(f.name.size() - 4, 4, ".len") == 0) {
			for (const char* val : {"0xfffffff8", "0xfffffff0", "0xffffffec", "0xfffffff7"}) { Line l = multi(); l.set("f1", f.name).set("v1", val); v.push_back(l); }
		}
	}
	return v;
}

struct ArchiveDamage : Family {
	std::string name() const override { return "archive-damage"; }

	Plan generate(const std::string&, Rng& r, bool thorough) override {
		Plan p;
		p.setenv("heap", r.below(256));
		p.setenv("stack", r.below(256));
		static const uint64_t SR[] = {0, 0, 7, 64, 4096};
		p.setenv("short_read", SR[r.below(5)]);
		p.setenv("eintr", r.chance(3, 4) ? 0 : r.range(2, 5));
		p.setenv("memcap", 32 << 20);
		p.setenv("iobudget", 300000);
		p.setenv("watchdog", 600);
		p.setenv("thorough", thorough ? 1 : 0);
		uint64_t k = r.below(10);
		Line t = mkline("world", "target");
		if (k < 5) {
			t.set("kind", "vol");
			p.world.push_back(t);
			genMembers(p, r, thorough ? 8 : 5, thorough ? 2000 : 300, true);
		} else if (k < 8) {
			t.set("kind", "clm");
			p.world.push_back(t);
			Line fmt = mkline("world", "fmt");
			fmt.set("tag", 1).set("ch", 1 + r.below(2)).set("rate", 22050).set("avg", 44100).set("align", 2).set("bits", 16);
			p.world.push_back(fmt);
			size_t n = static_cast<size_t>(r.below(thorough ? 8 : 5));
			for (size_t i = 0; i < n; ++i) { Line tr = mkline("world", "track"); tr.set("name", randName(r, 1, 8, false)).set("cseed", hex64(r.next())).set("len", r.below(thorough ? 2000 : 300)); p.world.push_back(tr); }
		} else {
			t.set("kind", "wav");
			p.world.push_back(t);
			size_t n = static_cast<size_t>(r.range(1, 2));
			for (size_t i = 0; i < n; ++i) { Line w = mkline("world", "wav"); w.set("cseed", hex64(r.next())).set("len", r.below(200)).set("pre", i == 0 ? r.range(1, 2) : 0).set("mid", r.below(2)).set("post", r.below(2)).set("fmt16", r.below(2)); p.world.push_back(w); }
		}
		p.damage.push_back(mkline("damage", "all"));
		size_t nops = static_cast<size_t>(r.range(4, 10));
		static const char* BIG[] = {"0x100000000", "0xffffffffffffffff", "0x7fffffff", "0x80000000"};
		for (size_t i = 0; i < nops; ++i) {
			Line op;
			std::string idx = r.chance(1, 10) ? BIG[r.below(4)] : "~" + std::to_string(r.below(100));
			uint64_t c = r.below(100);
			if (c < 12) { op = mkline("op", "name"); op.set("i", idx); }
			else if (c < 22) { op = mkline("op", "size"); op.set("i", idx); }
			else if (c < 28) { op = mkline("op", "kind"); op.set("i", idx); }
			else if (c < 38) { op = mkline("op", "index"); op.set("q", r.below(100)).set("case", r.below(6)); }
			else if (c < 44) { op = mkline("op", "contains"); op.set("q", r.below(100)).set("case", r.below(6)); }
			else if (c < 74) { op = mkline("op", "stream"); op.set("i", idx).set("rseed", hex64(r.next())); if (r.chance(1, 3)) op.set("byname", 1).set("case", r.below(6)); }
			else if (c < 92) { op = mkline("op", "extract"); op.set("i", idx); if (r.chance(1, 4)) op.set("ontoself", 1); }
			else op = mkline("op", "extractall");
			// failing allocation inside this call, on the long-lived object only: whatever the outcome, the object must stay usable
			if (r.chance(1, 5)) op.set("allocfail", 1 + r.below(12));
			else if (r.chance(1, 6)) op.set("openfail", 1 + r.below(3)); // an open for reading fails inside this call (descriptor limit)
			p.ops.push_back(op);
		}
		return p;
	}

	// one call on one archive object
	CallResult doCall(const Plan& plan, Archive::ArchiveFile& ar, Archive::VolFile* vol, const Line& op, const Target& t, size_t count, const std::string& tag) {
		CallResult r;
		auto idxOf = [&](const Line& l) -> size_t {
			std::string tok = l.get("i", "~0");
			if (tok[0] == '~') return static_cast<size_t>(parseU64(tok.substr(1)) % (count + 2));
			return static_cast<size_t>(parseU64(tok));
		};
		auto query = [&](const Line& l) -> std::string {
			uint64_t q = l.u("q", 0);
			if (t.names.empty() || q % 7 == 6) return "no-such-member";
			return caseVariant(t.names[q % t.names.size()], l.u("case", 0));
		};
		const std::string& v = op.verb;
		if (v == "name") { std::string s; r.out = callLib(plan, [&] { s = ar.GetName(idxOf(op)); }, &r.what); r.value = hashstr(s); }
		else if (v == "size") { uint32_t s = 0; r.out = callLib(plan, [&] { s = ar.GetSize(idxOf(op)); }, &r.what); r.value = s; }
		else if (v == "kind") { int k = 0; r.out = callLib(plan, [&] { if (vol) k = static_cast<int>(vol->GetCompressionCode(idxOf(op))); else (void)ar.GetSize(idxOf(op)); }, &r.what); r.value = static_cast<uint64_t>(k); }
		else if (v == "index") { size_t i = 0; r.out = callLib(plan, [&] { i = ar.GetIndex(query(op)); }, &r.what); r.value = i; }
		else if (v == "contains") { bool b = false; r.out = callLib(plan, [&] { b = ar.Contains(query(op)); }, &r.what); r.value = b; }
		else if (v == "stream") {
			r.isStream = true;
			size_t i = idxOf(op);
			r.out = callLib(plan, [&] {
				std::unique_ptr<Stream::BidirectionalReader> s;
				if (op.u("byname", 0) && i < count && count <= 4096) {
					// the stream is asked for by the name the object itself lists for member i
					std::string nm = ar.GetName(i);
					for (size_t j = 0; j < count; ++j) if (ref::nameEqualNoCase(ar.GetName(j), nm)) r.sameName.push_back(j);
					s = ar.OpenStream(caseVariant(nm, op.u("case", 0)));
				} else s = ar.OpenStream(i);
				uint64_t len = s->Length();
				if (len > (1u << 20)) throw std::runtime_error("stream longer than any file in this world");
				r.bytes.resize(static_cast<size_t>(len));
				Rng rr(op.u("rseed", 1));
				size_t off = 0;
				size_t handOver = (rr.chance(1, 3) && r.bytes.size() > 1) ? 1 + static_cast<size_t>(rr.below(r.bytes.size() - 1)) : SIZE_MAX;
				size_t readByOriginal = 0; // bytes [0, readByOriginal) were delivered by the original before a copy took over
				std::unique_ptr<Stream::BidirectionalReader> viaCopy;
				Stream::BidirectionalReader* cur = s.get();
				while (off < r.bytes.size()) {
					if (off >= handOver) {
						handOver = SIZE_MAX;
						if (auto* fs = dynamic_cast<Stream::FileSliceReader*>(cur)) {
							// a member stream is a file slice: a sub-slice whose start + length wraps around 2^64 is refused, and a copy taken in
							// mid-stream delivers the member's bytes from the position it reports
							bool refused = false;
							try { auto bad = fs->Slice(UINT64_MAX - rr.below(8), 1 + rr.below(40)); (void)bad; } catch (const std::exception&) { refused = true; }
							if (!refused) throw std::logic_error("SIM: a sub-slice of a member stream whose start + length wraps around 2^64 was created");
							viaCopy = std::make_unique<Stream::FileSliceReader>(*fs);
							uint64_t cpos = viaCopy->Position();
							if (cpos > r.bytes.size()) throw std::logic_error("SIM: copy of a member stream reports a position beyond its length");
							cur = viaCopy.get();
							readByOriginal = off;
							off = static_cast<size_t>(cpos);
							continue;
						}
					}
					size_t k = 1 + static_cast<size_t>(rr.below(rr.chance(1, 3) ? 5 : 3000)); if (k > r.bytes.size() - off) k = r.bytes.size() - off;
					std::vector<uint8_t> piece(k);
					cur->Read(piece.data(), k);
					for (size_t q = 0; q < k; ++q) {
						if (viaCopy && off + q < readByOriginal && piece[q] != r.bytes[off + q]) throw std::logic_error("SIM: a copy of a member stream delivers other bytes than the original did at the same position");
						r.bytes[off + q] = piece[q];
					}
					off += k;
				}
				if (len) { s->Seek(len / 2); uint8_t c; s->Peek(&c, 1); if (c != r.bytes[static_cast<size_t>(len / 2)]) throw std::logic_error("SIM: peek after seek disagrees with the bytes read"); }
				char extra;
				if (s->ReadPartial(&extra, 1) != 0 && s->Position() > len) throw std::logic_error("SIM: stream delivers bytes beyond its length");
			}, &r.what);
			r.value = fnv1a(r.bytes.data(), r.bytes.size()) ^ r.bytes.size();
			if (r.out != OkOut) r.bytes.clear();
		}
		else if (v == "extract") {
			std::string path = "_x" + tag + "/f.bin";
			// a member whose extraction this object refuses WITHOUT creating its output (tried first on a scratch destination) is then
			// asked for with the archive's OWN path as destination: it is refused again, and a refused call leaves everything as it was -
			// the archive file included (judged by the calls that follow, on this object and on freshly opened ones)
			if (op.u("ontoself", 0) && !op.has("allocfail") && !op.has("openfail")) { // (only when the refusal is the archive's own, not an injected fault's)
				std::string probe = "_xp" + tag + "/f.bin";
				bool refusedClean = false;
				{ std::string pw; Out po = callLib(plan, [&] { ar.ExtractFile(idxOf(op), probe); }, &pw); refusedClean = po == ErrStd && !disk::exists(probe); }
				if (refusedClean) path = t.path;
			}
			r.out = callLib(plan, [&] { ar.ExtractFile(idxOf(op), path); }, &r.what);
			std::vector<uint8_t> f;
			if (r.out == OkOut && disk::get(path, f)) r.value = fnv1a(f.data(), f.size()) ^ f.size();
		}
		else if (v == "extractall") {
			std::string dir = "_xa" + tag;
			r.out = callLib(plan, [&] { ar.ExtractAllFiles(dir); }, &r.what);
			if (r.out == OkOut) { uint64_t h = 7; for (auto& e : disk::snapshot(dir)) h = mix64(h, hashstr(e.first) ^ e.second.hash ^ e.second.len); r.value = h; }
		}
		else throw std::runtime_error("unknown op " + v);
		return r;
	}

	void checkBudget(RunCtx& ctx, const std::string& what) {
		if (g_fault.budgetExceeded) { g_fault.budgetExceeded = false; ctx.fail("C05.safe", what + ": no progress - more than the per-call budget of intercepted I/O calls were made by a single library call (endless loop)"); }
	}

	void execute(const Plan& plan, RunCtx& ctx) override {
		Target t = buildTarget(plan);
		std::vector<Line> variants;
		if (plan.damage.empty()) variants.push_back(mkline("damage", "none"));
		else if (plan.damage[0].verb == "all") variants = enumerateVariants(t, plan.seed, plan.envu("thorough", 0) != 0);
		else variants = plan.damage;
		std::unordered_set<uint64_t> seen;
		size_t calls = 0;
		for (size_t vi = 0; vi < variants.size(); ++vi) {
			const Line& dmg = variants[vi];
			ctx.setVariant(dmg.str());
			ctx.setOp(0);
			std::vector<uint8_t> bytes = applyDamage(t.bytes, t.fields, dmg);
			bool changed = bytes != t.bytes;
			disk::wipe();
			uint64_t vh = hashstr(dmg.verb);
			bool completed = false;
			++ctx.evaluations;
			ctx.count("fault.damage_" + dmg.verb);
			if (t.kind == "wav") {
				// WAV intake: damaged WAV (+ good ones) offered to CLM creation
				std::vector<std::string> list;
				disk::put(t.path, bytes);
				list.push_back(t.path);
				int n = 0;
				for (auto& l : plan.world) {
					if (l.verb != "wav") continue;
					if (n++ == 0) continue;
					ref::WavSpec s;
					s.data = prngBytes(l.u("cseed", 1) ^ 9, static_cast<size_t>(l.u("len", 0)));
					std::string p = "good" + std::to_string(n) + ".wav";
					disk::put(p, ref::encodeWav(s));
					list.push_back(p);
				}
				std::string what;
				Out o = callLib(plan, [&] { Archive::ClmFile::CreateArchive("_o.clm", list); }, &what);
				++calls;
				checkBudget(ctx, "ClmFile::CreateArchive on a damaged WAV");
				if (o == ErrOther) ctx.fail("C05.ordinary-error", "WAV intake failed with something that is not a std::exception");
				if (o == OkOut) ctx.count("probe.damaged_wav_accepted"); else ctx.count("probe.damaged_wav_refused");
				completed = true;
				vh = mix64(vh, o);
			} else {
				disk::put(t.path, bytes);
				std::unique_ptr<Archive::ArchiveFile> A;
				Archive::VolFile* Avol = nullptr;
				std::string what;
				auto open = [&](std::unique_ptr<Archive::ArchiveFile>& dst, Archive::VolFile*& volp) {
					return callLib(plan, [&] {
						if (t.kind == "vol") { auto v = std::make_unique<Archive::VolFile>(t.path); volp = v.get(); dst = std::move(v); }
						else dst = std::make_unique<Archive::ClmFile>(t.path);
					}, &what);
				};
				Out o = open(A, Avol);
				++calls;
				checkBudget(ctx, "opening the damaged archive");
				if (o == ErrOther) ctx.fail("C05.ordinary-error", "opening a damaged archive failed with something that is not a std::exception");
				vh = mix64(vh, o);
				if (o == OkOut) {
					completed = true;
					ctx.count("probe.damaged_archive_opened");
					size_t count = 0;
					{ Armed a; count = A->GetCount(); }
					if (count > 100000) ctx.count("probe.huge_member_count");
					bool aFailedBefore = false;
					size_t cloneAt = (mix64(plan.seed, 0xC10E) % 3 == 0) ? static_cast<size_t>(mix64(plan.seed, 0xC10F) % 6) : SIZE_MAX;
					// on the undamaged archive every member is, after the planned calls, also streamed by the name listed for it
					std::vector<Line> ops = plan.ops;
					if (!changed && count <= 64) for (size_t mi = 0; mi < count; ++mi) { Line so = mkline("op", "stream"); so.set("i", "~" + std::to_string(mi)).set("rseed", hex64(mix64(plan.seed, mi))).set("byname", 1).set("case", mi % 6); ops.push_back(so); }
					for (size_t oi = 0; oi < ops.size(); ++oi) {
						const Line& op = ops[oi];
						ctx.setOp(oi);
						if (vi == 0) ctx.schedNote(op.verb);
						uint64_t allocFail = op.u("allocfail", 0);
						uint64_t injectedBefore = g_alloc.injectedFailures;
						if (oi == cloneAt) {
							// value semantics: the long-lived object is replaced by a copy of itself, the original is destroyed (only if
							// the type can be copied at all - no property promises that)
							std::string cw;
							Out co = callLib(plan, [&] {
								if (Avol) { if constexpr (std::is_copy_constructible<Archive::VolFile>::value) { auto c = std::make_unique<Archive::VolFile>(*Avol); Avol = c.get(); A = std::move(c); } }
								else if (auto* cl = dynamic_cast<Archive::ClmFile*>(A.get())) { if constexpr (std::is_copy_constructible<Archive::ClmFile>::value) { auto c = std::make_unique<Archive::ClmFile>(*cl); A = std::move(c); } }
							}, &cw);
							if (co == ErrOther) ctx.fail("C05.ordinary-error", "copying the archive object failed with something that is not a std::exception");
							ctx.count("probe.archive_object_cloned");
						}
						g_alloc.failCountdown = allocFail;
						uint64_t openFiredBefore = g_fault.firedOpenFail;
						g_fault.openFailCountdown = op.u("openfail", 0);
						CallResult ra = doCall(plan, *A, Avol, op, t, count, "a" + std::to_string(oi));
						g_alloc.failCountdown = 0;
						g_fault.openFailCountdown = 0;
						bool openFailed = g_fault.firedOpenFail != openFiredBefore;
						if (openFailed) ctx.count("fault.open_failed_inside_archive_call");
						bool oomInjected = g_alloc.injectedFailures != injectedBefore || (openFailed && ra.out != OkOut);
						++calls;
						checkBudget(ctx, op.verb + " on the long-lived archive object");
						if (ra.out == ErrOther) ctx.fail("C05.ordinary-error", op.str() + " failed with something that is not a std::exception");
						if (ra.what.rfind("SIM:", 0) == 0) ctx.fail("C05.extent", op.str() + ": " + ra.what.substr(5));
						std::unique_ptr<Archive::ArchiveFile> F;
						Archive::VolFile* Fvol = nullptr;
						Out fo = open(F, Fvol);
						if (fo != OkOut) ctx.fail("C05.usable-after-failure", "the same damaged file opened once and failed to open the second time: " + what);
						CallResult rf = doCall(plan, *F, Fvol, op, t, count, "f" + std::to_string(oi));
						++calls;
						{ Armed a; F.reset(); }
						if (oomInjected) {
							// the call on the long-lived object ran out of memory at an arbitrary point: it may fail (ordinary error) or
							// succeed; it is not compared with the fresh object, but every LATER call is
							if (ra.out != OkOut) { aFailedBefore = true; ctx.count("probe.call_failed_by_injected_oom"); }
							vh = mix64(vh, 0x6f6f6d);
							continue;
						}
						if (ra.out != rf.out || (ra.out == OkOut && ra.value != rf.value)) {
							ctx.fail("C05.usable-after-failure", op.str() + " on the long-lived archive object gives " + outName(ra.out) + (ra.out != OkOut ? " (" + ra.what + ")" : "") + " but " + outName(rf.out) + (rf.out != OkOut ? " (" + rf.what + ")" : "") +
							         " on a freshly opened object" + (aFailedBefore ? "; an earlier call on the long-lived object had failed" : ""));
						}
						if (ra.out != OkOut) { aFailedBefore = true; ctx.count("probe.call_failed_then_continued"); }
						else if (aFailedBefore) ctx.count("probe.success_after_failed_call");
						vh = mix64(vh, mix64(ra.out, ra.value));
						// extent: a delivered member stream is exactly the file bytes at the recorded extent
						if (ra.isStream && ra.out == OkOut) {
							std::string tok = op.get("i", "~0");
							size_t i = tok[0] == '~' ? static_cast<size_t>(parseU64(tok.substr(1)) % (count + 2)) : static_cast<size_t>(parseU64(tok));
							std::vector<size_t> cands = ra.sameName.empty() ? std::vector<size_t>{i} : ra.sameName;
							if (!ra.sameName.empty()) ctx.count("probe.stream_by_listed_name");
							bool anyOk = false, anyLocated = false, anyInside = false;
							uint64_t start = 0;
							std::vector<uint64_t> lens;
							for (size_t ci = 0; ci < cands.size() && !anyOk; ++ci) {
							i = cands[ci];
							start = 0; lens.clear();
							bool located = false;
							if (t.kind == "vol" && bytes.size() >= 32) {
								uint64_t S = ref::getU32(bytes, 20) & 0x7fffffffu;
								uint64_t e = 24 + S + 8 + 14ull * i;
								if (e + 14 <= bytes.size()) {
									uint64_t blockOff = ref::getU32(bytes, static_cast<size_t>(e + 4));
									if (blockOff + 8 <= bytes.size()) { start = blockOff + 8; lens.push_back(ref::getU32(bytes, static_cast<size_t>(blockOff + 4)) & 0x7fffffffu); lens.push_back(ref::getU32(bytes, static_cast<size_t>(e + 8))); located = true; }
								}
							} else if (t.kind == "clm") {
								uint64_t e = 60 + 16ull * i;
								if (e + 16 <= bytes.size()) { start = ref::getU32(bytes, static_cast<size_t>(e + 8)); lens.push_back(ref::getU32(bytes, static_cast<size_t>(e + 12))); located = true; }
							}
							if (located) anyLocated = true;
							for (uint64_t L : lens) if (L == ra.bytes.size() && start + L <= bytes.size() && memcmp(bytes.data() + start, ra.bytes.data(), static_cast<size_t>(L)) == 0) anyOk = true;
							for (uint64_t L : lens) if (start + L <= bytes.size()) anyInside = true;
							}
							if (!anyLocated) ctx.fail("C05.extent", op.str() + ": a stream was delivered for member " + std::to_string(i) + " although the file holds no index entry / block header for it");
							bool okExtent = anyOk;
							if (!okExtent) {
								bool inside = anyInside;
								ctx.fail(inside ? "C05.extent" : "C05.no-short-stream", op.str() + ": stream of member " + std::to_string(i) + " has " + std::to_string(ra.bytes.size()) + " bytes which are not the file bytes at the recorded extent (start " + std::to_string(start) + ", recorded length " + (lens.empty() ? "?" : std::to_string(lens[0])) + ", file size " + std::to_string(bytes.size()) + ")");
							}
							ctx.count("probe.extent_checked");
						}
					}
					// fault: the archive file is cut short by someone else while the object lives (undamaged archive only). Every member is then
					// asked for again on the SAME object: "a member whose recorded extent does not lie inside the file is refused rather than
					// delivered short" - a stream that is delivered holds the member's full recorded length and bytes
					if (!changed && count > 0 && count <= 64 && bytes.size() > 64) {
						auto extentOf = [&](size_t mi, uint64_t& start, uint64_t& len) {
							if (t.kind == "vol" && bytes.size() >= 32) {
								uint64_t S = ref::getU32(bytes, 20) & 0x7fffffffu, e = 24 + S + 8 + 14ull * mi;
								if (e + 14 > bytes.size()) return false;
								uint64_t blockOff = ref::getU32(bytes, static_cast<size_t>(e + 4));
								if (blockOff + 8 > bytes.size()) return false;
								start = blockOff + 8; len = ref::getU32(bytes, static_cast<size_t>(e + 8));
								return Avol && Avol->GetCompressionCode(mi) == Archive::CompressionType::Uncompressed && start + len <= bytes.size();
							}
							if (t.kind == "clm") {
								uint64_t e = 60 + 16ull * mi;
								if (e + 16 > bytes.size()) return false;
								start = ref::getU32(bytes, static_cast<size_t>(e + 8)); len = ref::getU32(bytes, static_cast<size_t>(e + 12));
								return start + len <= bytes.size();
							}
							return false;
						};
						std::vector<size_t> cuts;
						cuts.push_back(32 + static_cast<size_t>(mix64(plan.seed, 0x5c) % (bytes.size() - 32)));
						cuts.push_back(bytes.size() - 1 - static_cast<size_t>(mix64(plan.seed, 0x5e) % 4));
						for (size_t q = 0; q < 4 && q < count; ++q) { size_t mj = static_cast<size_t>(mix64(plan.seed, 0x60 + q) % count); uint64_t st = 0, ln = 0; if (extentOf(mj, st, ln) && ln >= 1) cuts.push_back(static_cast<size_t>(st + ln / 2)); }
						size_t stepNo = 0;
						for (size_t cut : cuts) {
							if (cut >= bytes.size()) continue;
							disk::put(t.path, std::vector<uint8_t>(bytes.begin(), bytes.begin() + static_cast<long>(cut)));
							ctx.count("fault.archive_file_cut_short_under_live_object");
							for (size_t mi = 0; mi < count; ++mi) {
								Line so = mkline("op", (mi + cut) % 3 == 2 ? "extract" : "stream");
								so.set("i", "~" + std::to_string(mi)).set("rseed", hex64(mix64(plan.seed, mi + 77)));
								ctx.setOp(ops.size() + stepNo);
								CallResult rs = doCall(plan, *A, Avol, so, t, count, "t" + std::to_string(stepNo));
								std::string xpath = "_xt" + std::to_string(stepNo) + "/f.bin";
								++stepNo;
								++calls;
								if (rs.out == ErrOther) ctx.fail("C05.ordinary-error", so.str() + " after the archive file was cut to " + std::to_string(cut) + " bytes failed with something that is not a std::exception");
								if (rs.what.rfind("SIM:", 0) == 0) continue; // sub-slice probes of the stream walk: not this clause
								if (rs.out != OkOut) { ctx.count("probe.member_refused_after_cut"); continue; }
								uint64_t start = 0, len = 0;
								if (!extentOf(mi, start, len)) continue;
								std::string how = "the archive file was cut from " + std::to_string(bytes.size()) + " to " + std::to_string(cut) + " bytes while the archive object lived; ";
								if (so.verb == "stream") {
									if (rs.bytes.size() != len || memcmp(rs.bytes.data(), bytes.data() + start, static_cast<size_t>(len)) != 0)
										ctx.fail("C05.no-short-stream", how + "member " + std::to_string(mi) + " (recorded extent " + std::to_string(start) + "+" + std::to_string(len) + ") was then delivered as a stream of " + std::to_string(rs.bytes.size()) + " bytes that are not the member's bytes");
									ctx.count("probe.member_delivered_after_cut");
								} else if (t.kind == "vol") {
									std::vector<uint8_t> f;
									if (disk::get(xpath, f)) {
										if (f.size() != len || memcmp(f.data(), bytes.data() + start, static_cast<size_t>(len)) != 0)
											ctx.fail("C05.no-short-stream", how + "ExtractFile of member " + std::to_string(mi) + " (recorded extent " + std::to_string(start) + "+" + std::to_string(len) + ") then reported success and wrote " + std::to_string(f.size()) + " bytes that are not the member's bytes");
										ctx.count("probe.member_delivered_after_cut");
									}
								}
							}
						}
						disk::put(t.path, bytes);
					}
					{ Armed a; A.reset(); }
				} else ctx.count("probe.damaged_archive_refused");
			}
			if (changed && completed) { ++ctx.nontrivialEvals; if (seen.insert(vh).second) ++ctx.distinctEvals; }
			ctx.event(dmg.verb + " " + hex64(vh));
		}
		ctx.nontrivial = ctx.nontrivialEvals > 0;
		ctx.count("library_calls", calls);
		ctx.setVariant("");
	}

	std::string signatureDetail(const Plan& p, const Violation& v) override {
		std::string kind;
		for (auto& l : p.world) if (l.verb == "target") kind = l.get("kind");
		std::string d = p.damage.empty() ? "none" : p.damage[0].verb + (p.damage[0].has("field") ? ":" + p.damage[0].get("field") : "");
		// strip member ordinals from field names so the same defect on another member keeps its signature
		for (auto& c : d) if (c >= '0' && c <= '9') c = '#';
		return kind + "/" + d + "/" + (v.opIndex < p.ops.size() ? p.ops[v.opIndex].verb : "open");
	}
};
FamilyRegistrar regArchiveDamage(new ArchiveDamage);

} // namespace
} // namespace sim

// Expected-member model and the query / stream / extract checks shared by the archive families.
#pragma once
#include "common.h"
#include "Archive/ArchiveFile.h"
#include "Archive/VolFile.h"
#include "Stream/SliceReader.h"
#include <functional>
#include <memory>
#include <unistd.h>

namespace sim {

struct Member { std::string name; std::vector<uint8_t> data; std::vector<uint8_t> stored; uint16_t kind = 0x100; uint32_t size = 0; };

// Query / stream / extract operations on an opened archive, checked against the expected members.
struct ArchiveChecker {
	typedef std::function<std::string(const Member&, const std::vector<uint8_t>&)> Verifier;
	RunCtx& ctx;
	const Plan& plan;
	OP2Utility::Archive::ArchiveFile& ar;
	OP2Utility::Archive::VolFile* vol;
	const std::vector<Member>& exp;
	std::string P; // clause prefix family, e.g. "C01" names below
	std::string clListing, clStream, clExtract, clLookup;
	bool any = false;
	Verifier verify;      // optional: how an extracted file must look (default: exactly the member's data)
	std::string extractExt = ".bin";
	// optional: the file an extraction writes for a member whose data were `data` (default: the data themselves) - used to put a
	// well-formed older result of the same shape at the destination beforehand
	std::function<std::vector<uint8_t>(const Member&, const std::vector<uint8_t>&)> onDisk;

	void listing() {
		size_t count = 0;
		std::string what;
		Out o = callLib(plan, [&] { count = ar.GetCount(); }, &what);
		if (o != OkOut || count != exp.size()) ctx.fail(clListing, "archive lists " + std::to_string(count) + " members, expected " + std::to_string(exp.size()));
		for (size_t i = 0; i < exp.size(); ++i) {
			std::string nm;
			uint32_t sz = 0;
			int kind = 0;
			o = callLib(plan, [&] { nm = ar.GetName(i); sz = ar.GetSize(i); if (vol) kind = static_cast<int>(vol->GetCompressionCode(i)); }, &what);
			if (o != OkOut) ctx.fail(clListing, "listing member " + std::to_string(i) + " failed: " + what);
			if (nm != exp[i].name) ctx.fail(clListing, "member " + std::to_string(i) + " is named '" + nm + "', expected '" + exp[i].name + "' (ascending case-insensitive order of the final path components)");
			if (sz != exp[i].size) ctx.fail(clListing, "member " + std::to_string(i) + " '" + nm + "' reports size " + std::to_string(sz) + ", expected " + std::to_string(exp[i].size));
			if (vol && kind != exp[i].kind) ctx.fail(clListing, "member " + std::to_string(i) + " reports compression kind " + std::to_string(kind) + ", expected " + std::to_string(exp[i].kind));
		}
		ctx.event("listing " + std::to_string(count));
	}

	void stream(size_t i, uint64_t rseed, bool byName, uint64_t variant) {
		if (exp.empty()) return;
		i %= exp.size();
		const std::vector<uint8_t>& want = exp[i].stored.empty() && exp[i].kind == 0x100 ? exp[i].data : exp[i].stored;
		std::unique_ptr<OP2Utility::Stream::BidirectionalReader> s;
		std::string what;
		Out o = callLib(plan, [&] { s = byName ? ar.OpenStream(caseVariant(exp[i].name, variant)) : ar.OpenStream(i); }, &what);
		if (o != OkOut || !s) ctx.fail(clStream, "OpenStream(" + std::to_string(i) + ") failed: " + what);
		uint64_t len = 0;
		{ Armed a; len = s->Length(); }
		if (len != want.size()) ctx.fail(clStream, "stream of member " + std::to_string(i) + " '" + exp[i].name + "' has length " + std::to_string(len) + ", expected " + std::to_string(want.size()));
		Rng r(rseed);
		std::vector<uint8_t> got;
		size_t handOver = (r.chance(1, 3) && want.size() > 1) ? 1 + static_cast<size_t>(r.below(want.size() - 1)) : SIZE_MAX; // continue through a copy from here
		while (got.size() < want.size()) {
			if (got.size() >= handOver) {
				handOver = SIZE_MAX;
				if (auto* fs = dynamic_cast<OP2Utility::Stream::FileSliceReader*>(s.get())) {
					// a member stream is a file slice: a copy taken in mid-stream continues where the original stands, and a sub-slice
					// whose start + length wraps around 2^64 is refused
					std::unique_ptr<OP2Utility::Stream::BidirectionalReader> c;
					bool wrapRefused = false;
					uint64_t cpos = 0;
					o = callLib(plan, [&] {
						try { auto bad = fs->Slice(UINT64_MAX - r.below(8), 1 + r.below(40)); (void)bad; } catch (const std::exception&) { wrapRefused = true; }
						c = std::make_unique<OP2Utility::Stream::FileSliceReader>(*fs);
						cpos = c->Position();
					}, &what);
					if (o != OkOut) ctx.fail(clStream, "copying the stream of member " + std::to_string(i) + " at position " + std::to_string(got.size()) + " failed: " + what);
					if (!wrapRefused) ctx.fail(clStream, "a sub-slice of the stream of member " + std::to_string(i) + " whose start + length wraps around 2^64 was created");
					// where a copy starts is not specified (this library's file slices restart at 0): adopt the position it reports - what it
					// then delivers must be the member's bytes from exactly there
					if (cpos > want.size()) ctx.fail(clStream, "a copy of the stream of member " + std::to_string(i) + " reports position " + std::to_string(cpos) + " beyond its length");
					got.assign(want.begin(), want.begin() + static_cast<long>(cpos));
					{ Armed a; s = std::move(c); }
					ctx.count("probe.stream_continued_through_copy");
				}
			}
			size_t rem = want.size() - got.size();
			size_t k;
			switch (r.below(5)) { case 0: k = 1; break; case 1: k = 1 + r.below(7); break; case 2: k = rem; break; case 3: k = 1 + r.below(4096); break; default: k = 1 + r.below(200000); break; }
			if (k > rem) k = rem;
			std::unique_ptr<char[]> buf(new char[k]);
			o = callLib(plan, [&] { s->Read(buf.get(), k); }, &what);
			if (o != OkOut) ctx.fail(clStream, "reading " + std::to_string(k) + " bytes at " + std::to_string(got.size()) + " of member " + std::to_string(i) + " failed: " + what);
			got.insert(got.end(), buf.get(), buf.get() + k);
		}
		if (got != want) {
			size_t d = 0;
			while (d < got.size() && got[d] == want[d]) ++d;
			ctx.fail(clStream, "stream of member " + std::to_string(i) + " '" + exp[i].name + "' differs from the stored bytes at offset " + std::to_string(d));
		}
		char extra;
		size_t n = 1;
		{ Armed a; n = s->ReadPartial(&extra, 1); }
		if (n != 0) ctx.fail(clStream, "stream of member " + std::to_string(i) + " delivers bytes beyond its length");
		{ Armed a; s.reset(); }
		if (!want.empty()) any = true;
		ctx.event("stream " + std::to_string(i) + " " + hex64(fnv1a(got.data(), got.size())));
	}

	void checkFile(const std::string& path, const std::vector<uint8_t>& want, const std::string& desc, const Member* m = nullptr) {
		std::vector<uint8_t> got;
		if (!disk::get(path, got)) ctx.fail(clExtract, desc + ": no file at " + path);
		if (verify && m) {
			std::string problem = verify(*m, got);
			if (!problem.empty()) ctx.fail(clExtract, desc + ": " + problem);
			return;
		}
		if (got != want) {
			size_t d = 0;
			while (d < got.size() && d < want.size() && got[d] == want[d]) ++d;
			ctx.fail(clExtract, desc + ": extracted file has " + std::to_string(got.size()) + " bytes, expected " + std::to_string(want.size()) + "; first difference at " + std::to_string(d));
		}
	}

	void extract(size_t i, bool byName, uint64_t variant, size_t opIdx) {
		if (exp.empty()) return;
		i %= exp.size();
		if (exp[i].kind != 0x100 && exp[i].kind != 0x103) return;
		std::string path = "_ex" + std::to_string(opIdx) + "/m" + std::to_string(i) + extractExt;
		std::string what;
		// what is at the destination beforehand: nothing, a file of the same length with other content, or a file of another length
		uint64_t pre = mix64(plan.seed, opIdx * 31 + i) % 4;
		if (pre == 1 && !exp[i].data.empty()) { std::vector<uint8_t> decoy = digestDecoy(exp[i].data, mix64(plan.seed, opIdx * 131 + i)); if (onDisk) decoy = onDisk(exp[i], decoy); disk::put(path, decoy); ctx.count("probe.extract_over_same_length_file"); }
		else if (pre == 2) disk::put(path, prngBytes(plan.seed ^ opIdx, exp[i].data.size() + 1 + (plan.seed % 50)));
		Out o = callLib(plan, [&] { if (byName) ar.ExtractFile(caseVariant(exp[i].name, variant), path); else ar.ExtractFile(i, path); }, &what);
		std::string desc = std::string(byName ? "ExtractFile(name)" : "ExtractFile(index)") + " of member " + std::to_string(i) + " '" + exp[i].name + "'";
		if (o != OkOut) ctx.fail(clExtract, desc + " failed: " + what);
		checkFile(path, exp[i].data, desc, &exp[i]);
		if (!exp[i].data.empty()) any = true;
		ctx.event("extract " + std::to_string(i));
	}

	void extractAll(size_t opIdx) {
		for (auto& m : exp) if (m.kind != 0x100 && m.kind != 0x103) return;
		std::string dir = "_all" + std::to_string(opIdx);
		std::string what;
		// destination: a fresh directory, one spelled with a trailing '/' or a leading './', one already holding same-named files of the
		// same length with other content, or the current directory under its three spellings ("" is the library's own)
		uint64_t how = mix64(plan.seed, opIdx * 17 + 5) % 7;
		std::string arg = dir, base = dir + "/";
		size_t foreign = 0;
		auto fileNameOf = [&](const Member& m) { return m.name; }; // ExtractAllFiles names each file after its member
		if (how == 1) arg = dir + "/";
		else if (how == 2) arg = "./" + dir;
		else if (how == 3) {
			for (auto& m : exp) if (!m.data.empty() && mix64(plan.seed, fnv1a(reinterpret_cast<const uint8_t*>(m.name.data()), m.name.size())) % 2) { std::vector<uint8_t> decoy = digestDecoy(m.data, mix64(plan.seed, m.data.size() + opIdx)); if (onDisk) decoy = onDisk(m, decoy); disk::put(dir + "/" + fileNameOf(m), decoy); }
			disk::put(dir + "/_foreign.keep", prngBytes(plan.seed, 9)); foreign = 1;
			ctx.count("probe.extractall_into_populated_directory");
		} else if (how >= 4) {
			// current directory - only when no member would land on something that already exists there
			bool safe = true;
			for (auto& m : exp) if (disk::exists(fileNameOf(m)) || fileNameOf(m).find('/') != std::string::npos) safe = false;
			if (safe) { arg = how == 4 ? "" : how == 5 ? "." : "./"; base = ""; ctx.count("probe.extractall_into_current_directory"); }
		}
		Out o = callLib(plan, [&] { ar.ExtractAllFiles(arg); }, &what);
		if (o != OkOut) ctx.fail(clExtract, "ExtractAllFiles('" + arg + "') failed: " + what);
		for (auto& m : exp) checkFile(base + fileNameOf(m), m.data, "ExtractAllFiles('" + arg + "') member '" + m.name + "'", &m);
		if (base.empty()) { for (auto& m : exp) unlink(fileNameOf(m).c_str()); }
		else {
			auto snap = disk::snapshot(dir);
			if (!exp.empty() && snap.size() != exp.size() + foreign) ctx.fail(clExtract, "ExtractAllFiles produced " + std::to_string(snap.size() - foreign) + " entries for " + std::to_string(exp.size()) + " members");
		}
		ctx.event("extractall " + std::to_string(exp.size()));
	}

	void lookup(size_t i, uint64_t variant) {
		if (exp.empty()) return;
		i %= exp.size();
		std::string q = caseVariant(exp[i].name, variant);
		size_t idx = SIZE_MAX;
		bool has = false;
		std::string what;
		Out o = callLib(plan, [&] { has = ar.Contains(q); idx = ar.GetIndex(q); }, &what);
		if (o != OkOut) ctx.fail(clLookup, "looking up '" + q + "' (member " + std::to_string(i) + " is '" + exp[i].name + "') failed: " + what);
		if (!has || idx != i) ctx.fail(clLookup, "lookup of '" + q + "' returned contains=" + std::to_string(has) + " index=" + std::to_string(idx) + ", expected member " + std::to_string(i));
		ctx.event("lookup " + std::to_string(i));
	}
};


} // namespace sim

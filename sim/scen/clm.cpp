// Family "clm-roundtrip" (C03): sets of RIFF/WAVE files written by the independent WAV encoder
// (arbitrary even-sized chunks before "fmt ", between "fmt " and "data", and after "data") packed with
// ClmFile::CreateArchive, reopened, listed, streamed and extracted; the durable CLM bytes are parsed by
// the independent CLM decoder.
#include "archive_check.h"
#include "../models/refclm.h"
#include "Archive/ClmFile.h"
#include <algorithm>
#include <stdexcept>
#include <unistd.h>

using namespace OP2Utility;

namespace sim {
namespace {

const char* kForeignTags[] = {"LIST", "fact", "cue ", "JUNK", "smpl", "PEAK", "bext", "id3 "};

std::vector<ref::WavChunk> chunksFor(uint64_t seed, uint64_t count) {
	std::vector<ref::WavChunk> v;
	Rng r(seed);
	for (uint64_t i = 0; i < count && i < 4; ++i) {
		ref::WavChunk c;
		c.tag = kForeignTags[r.below(8)];
		c.data = prngBytes(r.next(), static_cast<size_t>(2 * r.below(24)));
		v.push_back(c);
	}
	return v;
}

ref::WaveFormat formatFrom(const Line& l) {
	ref::WaveFormat f;
	f.tag = static_cast<uint16_t>(l.u("tag", 1)); f.channels = static_cast<uint16_t>(l.u("ch", 1)); f.rate = static_cast<uint32_t>(l.u("rate", 22050));
	f.avg = static_cast<uint32_t>(l.u("avg", 44100)); f.align = static_cast<uint16_t>(l.u("align", 2)); f.bits = static_cast<uint16_t>(l.u("bits", 16));
	return f;
}

struct ClmRoundtrip : Family {
	std::string name() const override { return "clm-roundtrip"; }

	Plan generate(const std::string&, Rng& r, bool thorough) override {
		Plan p;
		size_t nf;
		switch (r.below(6)) { case 0: nf = 0; break; case 1: nf = 1; break; default: nf = r.range(2, 8); break; }
		bool many = r.chance(1, thorough ? 10 : 25); // beyond the thresholds (16, 32) at which sort / small-buffer strategies change
		if (many) nf = r.range(17, 40);
		Line fmt = mkline("world", "fmt");
		if (r.chance(1, 3)) fmt.set("tag", 1).set("ch", 1).set("rate", 22050).set("avg", 44100).set("align", 2).set("bits", 16);
		else fmt.set("tag", r.below(65536)).set("ch", r.below(65536)).set("rate", r.next() & 0xffffffffu).set("avg", r.next() & 0xffffffffu).set("align", r.below(65536)).set("bits", r.below(65536));
		p.world.push_back(fmt);
		std::vector<std::string> names;
		bool big = false;
		for (size_t i = 0; i < nf; ++i) {
			std::string nm;
			for (int t = 0; t < 50; ++t) {
				nm = randName(r, 1, 8, false);
				if (r.chance(1, 4) && nm.size() > 1) nm[1 + r.below(nm.size() - 1)] = '_'; // never first: harness-owned paths start with '_'
				if (r.chance(1, 8) && nm.size() > 1) { static const char P[] = {'.', '-', ',', '+', '!', ' ', '.', '-'}; nm[1 + r.below(nm.size() - 1)] = P[r.below(8)]; } // characters that sort below '.'; a dot inside the base name
				if (!names.empty() && r.chance(1, 3)) { const std::string& o = names[r.below(names.size())]; nm = (o.substr(0, 1 + r.below(o.size())) + randName(r, 1, 3, false)).substr(0, 8); }
				if (r.chance(1, 8)) nm = digestTwin(names, r, 8); // different names with one 32-bit digest
				if (!nm.empty() && nm[0] == '_') nm[0] = 'u';
				bool clash = false;
				for (auto& o : names) if (ref::nameEqualNoCase(o, nm)) clash = true;
				if (!clash) break;
				nm.clear();
			}
			if (nm.empty()) continue;
			names.push_back(nm);
			Line w = mkline("world", "wav");
			uint64_t len;
			switch (r.below(8)) { case 0: len = 0; break; case 1:
				// boundary lengths of the audio data, and lengths that put the EXTRACTED file (46-byte header + data) or the canonical
				// 44-byte-header file on a boundary
				if (r.chance(1, 2) && !many) { len = boundarySize(r, thorough ? 16 : 15); uint64_t h = r.chance(1, 2) ? 0 : r.chance(2, 3) ? 46 : 44; if (len > h) len -= h; }
				else len = 1 + r.below(4);
				break; case 2: len = (!big || thorough) && !many && r.chance(1, 3) ? 131071 + r.below(3) : r.below(5000); break; default: len = r.below(many ? 200 : 5000); break; }
			if (len > 100000) big = true;
			static const char* EXT[] = {".wav", ".WAV", ".Wav", ".wAV"};
			static const char* ODD[] = {".wave", ".w", "-", ".snd", ".WAVE"}; // "-" = no extension at all
			w.set("name", quoteToken(nm)).set("ext", r.chance(1, 12) ? ODD[r.below(5)] : EXT[r.below(4)]).set("dir", r.chance(1, 4) ? std::string("-") : "_w" + std::to_string(r.below(3))).set("cseed", hex64(r.next())).set("len", len)
			 .set("fmt16", r.chance(1, 4) ? 1 : 0).set("cb", r.chance(1, 2) ? 0 : r.below(65536)).set("pre", r.chance(2, 3) ? 0 : r.range(1, 2)).set("mid", r.chance(2, 3) ? 0 : r.range(1, 2)).set("post", r.chance(1, 2) ? 0 : r.range(1, 3)).set("sp", r.below(7));
			if (r.chance(1, 10)) w.set("link", 1);
			if (r.chance(1, 3)) w.set("padlast", 1);
			p.world.push_back(w);
		}
		for (auto& l : p.world) if (l.verb == "wav") { if (r.chance(1, 12)) l.set("inner", 1 + r.below(2)); else if (r.chance(1, 12)) l.set("pat", 1 + r.below(6)); }
		for (size_t i = p.world.size(); i > 2; --i) std::swap(p.world[i - 1], p.world[1 + r.below(i - 1)]);
		swarmEnv(p, r, true, true, big);
		uint64_t mode = r.below(15); if (mode >= 10) mode = 0; // 0..4 plain; 5 notriff; 6 badsize; 7 fmtdiff; 8 longname; 9 dupcase
		if (mode >= 5 && p.world.size() >= 2) {
			size_t victim = 1 + r.below(p.world.size() - 1);
			Line& w = p.world[victim];
			if (mode == 5) w.set("bad", r.chance(1, 2) ? "notriff" : "notwave");
			else if (mode == 6) w.set("bad", "badsize").set("delta", r.chance(1, 2) ? 1 + r.below(9) : (0xffffffffu - r.below(9)));
			else if (mode == 7) { if (nf >= 2) w.set("bad", "fmtdiff").set("which", r.below(6)); }
			else if (mode == 8) w.set("name", randName(r, 9, 12, false));
			else if (r.chance(1, 2)) { Line d = w; d.set("dir", "_wx").set("name", caseVariant(w.get("name"), 1 + r.below(3))); std::string a = d.get("name"), b = w.get("name"); if (a != b) p.world.push_back(d); }
			else {
				// same base name (possibly in another letter case), different extension: still a duplicate member name
				Line d = w;
				static const char* ALT[] = {".wave", ".w", "-", ".snd", ".WAVE", ".wav", ".WAV"};
				std::string e;
				for (int t = 0; t < 8 && (e.empty() || e == w.get("ext")); ++t) e = ALT[r.below(7)];
				if (r.chance(1, 2)) d.set("name", caseVariant(w.get("name"), 1 + r.below(3)));
				if (r.chance(1, 2)) d.set("dir", "_wx");
				d.set("ext", e);
				bool sameFile = d.get("dir") == w.get("dir") && ref::nameEqualNoCase(e, w.get("ext")) && d.get("name") == w.get("name");
				if (e != w.get("ext") && !sameFile) p.world.push_back(d);
			}
		}
		Line create = mkline("op", "create");
		create.set("out", r.chance(1, 2) ? "_out.clm" : "_o/Music.CLM");
		p.ops.push_back(create);
		size_t nops = static_cast<size_t>(r.range(3, thorough ? 30 : 16));
		for (size_t i = 0; i < nops; ++i) {
			Line op;
			uint64_t k = r.below(100);
			if (k < 10) op = mkline("op", "listing");
			else if (k < 40) { op = mkline("op", "stream"); op.set("i", r.below(64)).set("rseed", hex64(r.next())).set("byname", r.below(2)).set("case", r.below(6)); }
			else if (k < 62) { op = mkline("op", "extract"); op.set("i", r.below(64)).set("byname", r.below(2)).set("case", r.below(6)); }
			else if (k < 70) op = mkline("op", "extractall");
			else { op = mkline("op", "lookup"); op.set("i", r.below(64)).set("case", r.below(6)); }
			p.ops.push_back(op);
		}
		p.ops.push_back(mkline("op", "listing"));
		return p;
	}

	void execute(const Plan& plan, RunCtx& ctx) override {
		ref::WaveFormat common;
		struct In { std::string base, path; std::vector<uint8_t> data; bool bad = false; bool fmtdiff = false; };
		std::vector<In> ins;
		bool postChunkSeen = false;
		for (auto& l : plan.world) {
			if (l.verb == "fmt") common = formatFrom(l);
		}
		for (auto& l : plan.world) {
			if (l.verb != "wav") continue;
			In in;
			in.base = unquoteToken(l.get("name", "a"));
			std::string rawName = unquoteToken(l.get("rawname", "")); // adaptive phase: an input living at a path the implementation itself uses
			if (!rawName.empty()) { size_t dot = rawName.rfind('.'); in.base = (dot == std::string::npos || dot == 0) ? rawName : rawName.substr(0, dot); if (rawName.find('/') != std::string::npos) throw std::runtime_error("bad raw wav name"); }
			else for (char c : in.base) if (c == '/' || c == 0 || in.base[0] == '_') throw std::runtime_error("bad wav base name");
			ref::WavSpec w;
			w.fmt = common;
			std::string bad = l.get("bad", "");
			if (bad == "fmtdiff") {
				switch (l.u("which", 0) % 6) { case 0: w.fmt.tag ^= 1; break; case 1: w.fmt.channels ^= 2; break; case 2: w.fmt.rate ^= 0x10000; break; case 3: w.fmt.avg ^= 1; break; case 4: w.fmt.align ^= 0x100; break; default: w.fmt.bits ^= 8; break; }
				in.fmtdiff = true;
			}
			w.fmt16 = l.u("fmt16", 0) != 0;
			w.cbSize = static_cast<uint16_t>(l.u("cb", 0));
			uint64_t cs = l.u("cseed", 1);
			w.beforeFmt = chunksFor(cs ^ 1, l.u("pre", 0));
			w.between = chunksFor(cs ^ 2, l.u("mid", 0));
			w.afterData = chunksFor(cs ^ 3, l.u("post", 0));
			w.padLastData = l.u("padlast", 0) != 0;
			if (l.u("len", 0) > (1u << 20)) throw std::runtime_error("wav too large");
			w.data = patternBytes(cs, static_cast<size_t>(l.u("len", 0)), l.u("pat", 0));
			if (l.u("inner", 0)) {
				// the audio data is itself a complete, self-consistent WAV file of ANOTHER format (a recording of a recording): still just bytes
				ref::WavSpec inner;
				inner.fmt = common; inner.fmt.rate ^= 0x1f40; inner.fmt.bits ^= 24; inner.fmt.channels ^= 3;
				inner.fmt16 = l.u("inner", 0) == 2;
				inner.data = w.data;
				w.data = ref::encodeWav(inner);
				ctx.count("probe.payload_is_itself_a_wav");
			}
			if (!w.afterData.empty()) postChunkSeen = true;
			std::vector<uint8_t> bytes = ref::encodeWav(w);
			if (bad == "notriff") { bytes[0] = 'X'; in.bad = true; }
			if (bad == "notwave") { bytes[9] = 'a'; in.bad = true; }
			if (bad == "badsize") { uint32_t sz = ref::getU32(bytes, 4) + static_cast<uint32_t>(l.u("delta", 1)); for (int i = 0; i < 4; ++i) bytes[4 + static_cast<size_t>(i)] = static_cast<uint8_t>(sz >> (8 * i)); in.bad = true; }
			std::string dir = l.get("dir", "-");
			if (dir == "-") dir.clear();
			std::string fname = !rawName.empty() ? rawName : in.base + (l.get("ext", ".wav") == "-" ? std::string() : l.get("ext", ".wav"));
			// the member name is the file name without its last extension (a leading dot starts no extension): base names may hold dots
			{ size_t dot = fname.rfind('.'); in.base = (dot == std::string::npos || dot == 0) ? fname : fname.substr(0, dot); }
			std::string onDisk = dir.empty() ? fname : dir + "/" + fname;
			if (!dir.empty()) disk::mkdirs(dir + "/_s");
			if (l.u("link", 0)) {
				// the listed path is a symbolic link to the file holding the bytes
				std::string real = "_real" + std::to_string(ins.size());
				disk::put(dir.empty() ? real : dir + "/" + real, bytes);
				if (symlink(real.c_str(), onDisk.c_str()) != 0) throw std::runtime_error("symlink failed");
				ctx.count("probe.input_is_symlink");
			} else disk::put(onDisk, bytes);
			uint64_t sp = l.u("sp", 0);
			if (sp % 7 == 6) in.path = disk::scratchRoot() + "/" + onDisk; // absolute
			else if (dir.empty()) in.path = (sp % 2) ? "./" + fname : fname;
			else switch (sp % 5) { case 0: in.path = dir + "/" + fname; break; case 1: in.path = "./" + dir + "/" + fname; break; case 2: in.path = dir + "//" + fname; break; case 3: in.path = dir + "/./" + fname; break; default: in.path = dir + "/_s/../" + fname; break; }
			in.data = w.data;
			ins.push_back(in);
		}
		std::unique_ptr<Archive::ClmFile> clm;
		std::vector<Member> exp;
		bool created = false, any = false;
		for (size_t oi = 0; oi < plan.ops.size(); ++oi) {
			const Line& op = plan.ops[oi];
			ctx.setOp(oi);
			ctx.schedNote(op.verb);
			if (op.verb == "create") {
				if (created) continue;
				std::string out = op.get("out", "_out.clm");
				std::vector<std::string> list;
				for (auto& in : ins) list.push_back(in.path);
				bool anyBad = false, fmtdiff = false, longName = false, dup = false;
				for (auto& in : ins) { anyBad = anyBad || in.bad; fmtdiff = fmtdiff || in.fmtdiff; longName = longName || in.base.size() > 8; }
				if (ins.size() < 2) fmtdiff = false;
				for (size_t a = 0; a < ins.size(); ++a) for (size_t b = a + 1; b < ins.size(); ++b) if (ref::nameEqualNoCase(ins[a].base, ins[b].base)) dup = true;
				std::string what;
				g_fault.touchedCount = 0;
				Out o = callLib(plan, [&] { Archive::ClmFile::CreateArchive(out, list); }, &what);
				if (o == ErrOther) ctx.fail("C03.refuse-invalid", "CreateArchive threw something that is not a std::exception");
				// adaptive second phase (see vol-roundtrip): one more input at a side path the implementation went through
				if (o == OkOut && !(anyBad || fmtdiff || longName || dup) && !plan.envu("adaptive", 0)) {
					std::vector<std::string> side = sidePaths(out, list);
					for (int ti = 0; ti < g_fault.touchedCount; ++ti) if (normPath(g_fault.touched[ti]) == normPath(out)) { ctx.count("probe.path_trace_saw_destination"); break; }
					if (!side.empty()) {
						ctx.count("probe.side_file_seen");
						const std::string& sp = side[plan.seed % side.size()];
						size_t slash = sp.rfind('/');
						std::string dir = slash == std::string::npos ? "-" : sp.substr(0, slash), base = slash == std::string::npos ? sp : sp.substr(slash + 1);
						Plan derived = plan;
						derived.setenv("adaptive", 1);
						Line w = mkline("world", "wav");
						w.set("name", "x").set("rawname", quoteToken(base)).set("dir", dir).set("cseed", hex64(mix64(plan.seed, 78))).set("len", 10 + plan.seed % 500).set("sp", 0);
						derived.world.push_back(w);
						ctx.event("adaptive " + sp);
						{ Armed a; clm.reset(); }
						disk::wipe();
						execute(derived, ctx);
						return;
					}
				}
				if (anyBad || fmtdiff || longName || dup) {
					const char* why = anyBad ? "an input is not a well-formed RIFF/WAVE file" : fmtdiff ? "inputs disagree in sample format" : longName ? "a base name is longer than 8 characters" : "two base names are equal ignoring case";
					if (o == OkOut) ctx.fail("C03.refuse-invalid", std::string("CreateArchive must be refused (") + why + ") but succeeded");
					ctx.count(std::string("probe.refused_") + (anyBad ? "not_wav" : fmtdiff ? "format_mismatch" : longName ? "long_name" : "duplicate"));
					ctx.event(std::string("create refused ") + why);
					any = true;
					continue;
				}
				if (o != OkOut) ctx.fail("C03.listing", "CreateArchive(" + out + ", " + std::to_string(list.size()) + " wav files) failed: " + what);
				created = true;
				std::vector<In> sorted = ins;
				std::sort(sorted.begin(), sorted.end(), [](const In& a, const In& b) { return ref::nameCompare(a.base, b.base) < 0; });
				for (auto& in : sorted) { Member m; m.name = in.base; m.data = in.data; m.size = static_cast<uint32_t>(in.data.size()); exp.push_back(m); if (in.data.empty()) ctx.count("probe.zero_length_data"); if (in.base.size() == 8) ctx.count("probe.eight_char_name"); }
				if (postChunkSeen && exp.size() >= 2) ctx.count("probe.chunk_after_data_with_two_members");
				std::vector<uint8_t> bytes;
				if (!disk::get(out, bytes)) ctx.fail("C03.layout", "no archive at " + out);
				ref::ClmParse cp = ref::decodeClm(bytes);
				if (!cp.ok()) ctx.fail("C03.layout", "written CLM is not well-formed: " + cp.problems[0]);
				if (cp.names.size() != exp.size()) ctx.fail("C03.layout", "CLM index has " + std::to_string(cp.names.size()) + " entries for " + std::to_string(exp.size()) + " inputs");
				if (!ins.empty() && !(cp.fmt == common)) ctx.fail("C03.layout", "CLM header does not carry the inputs' common wave format");
				for (size_t i = 0; i < exp.size(); ++i) {
					if (cp.names[i] != exp[i].name) ctx.fail("C03.layout", "index entry " + std::to_string(i) + " is named '" + cp.names[i] + "', expected '" + exp[i].name + "'");
					if (cp.lengths[i] != exp[i].data.size()) ctx.fail("C03.layout", "index entry " + std::to_string(i) + " records length " + std::to_string(cp.lengths[i]) + ", the data chunk has " + std::to_string(exp[i].data.size()));
					if (memcmp(bytes.data() + cp.offsets[i], exp[i].data.data(), exp[i].data.size()) != 0) ctx.fail("C03.layout", "bytes at the recorded extent of entry " + std::to_string(i) + " are not that file's audio data");
				}
				o = callLib(plan, [&] { clm = std::make_unique<Archive::ClmFile>(out); }, &what);
				if (o != OkOut) ctx.fail("C03.listing", "reopening the written CLM failed: " + what);
				ctx.event("create ok " + std::to_string(exp.size()));
				continue;
			}
			if (!clm) { ctx.event("skip"); continue; }
			maybeCloneArchive(plan, ctx, clm, oi, "C03.listing");
			ArchiveChecker ck{ctx, plan, *clm, nullptr, exp, "C03", "C03.listing", "C03.stream-bytes", "C03.extract-wav", "C03.listing"};
			ref::WaveFormat fmtForExtract = ins.empty() ? ref::WaveFormat() : common;
			ck.verify = [&](const Member& m, const std::vector<uint8_t>& file) { return ref::checkExtractedWav(file, fmtForExtract, m.data); };
			ck.extractExt = ".wav";
			// an older extraction result of the same shape: same format, same length, other audio bytes
			ck.onDisk = [&](const Member&, const std::vector<uint8_t>& data) { ref::WavSpec s; s.fmt = fmtForExtract; s.data = data; return ref::encodeWav(s); };
			if (op.verb == "listing") ck.listing();
			else if (op.verb == "stream") ck.stream(static_cast<size_t>(op.u("i")), op.u("rseed"), op.u("byname") != 0, op.u("case"));
			else if (op.verb == "extract") ck.extract(static_cast<size_t>(op.u("i")), op.u("byname") != 0, op.u("case"), oi);
			else if (op.verb == "extractall") ck.extractAll(oi);
			else if (op.verb == "lookup") ck.lookup(static_cast<size_t>(op.u("i")), op.u("case"));
			else throw std::runtime_error("unknown op " + op.verb);
			any = any || ck.any || !exp.empty();
		}
		{ Armed a; clm.reset(); }
		ctx.nontrivial = any;
		ctx.count("library_calls", plan.ops.size());
	}
	std::string signatureDetail(const Plan& p, const Violation& v) override { return v.opIndex < p.ops.size() ? p.ops[v.opIndex].verb : ""; }
};
FamilyRegistrar regClmRoundtrip(new ClmRoundtrip);

} // namespace
} // namespace sim

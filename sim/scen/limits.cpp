// Family "limits" (C20, fault enumeration): the finite list of quantities at and beyond each on-disk
// field width, built on the simulated disk with sparse giant inputs and "sink" outputs (data writes
// become lseek + ftruncate, so multi-GiB archives cost no blocks). Oracle: "does not fit => error";
// for VOL additionally the destination is still absent, or byte-identical to the sentinel.
#include "common.h"
#include "../models/refclm.h"
#include "../models/refvol.h"
#include "Archive/ClmFile.h"
#include "Archive/VolFile.h"
#include "Sprite/ArtFile.h"
#include "Stream/DynamicMemoryWriter.h"
#include <memory>
#include <stdexcept>
#include <unistd.h>

using namespace OP2Utility;

namespace sim {
namespace {

struct Case { const char* kind; std::vector<uint64_t> sizes; bool fits; uint64_t arg; };

const std::vector<Case>& cases() {
	static const uint64_t G = 1ull << 30;
	static std::vector<Case> v = {
		{"vol-member", {(1ull << 31)}, false, 0},
		{"vol-member", {(1ull << 31) + 1}, false, 0},
		{"vol-member", {(1ull << 32) - 1}, false, 0},
		{"vol-member", {(1ull << 32)}, false, 0},
		{"vol-member", {(1ull << 32) + 5}, false, 0},
		{"vol-member", {77, (1ull << 31), 5}, false, 0},
		// members are named so that they sort in the order listed: the LAST member's block offset is the one beyond 2^32
		{"vol-total", {G + G / 2, G + G / 2, G + G / 2, G + G / 2}, false, 0},
		{"vol-total", {0x7fffff00ull, 0x7fffff00ull, 0x200, 5}, false, 0},
		{"vol-total", {G, G, G, G, 3}, false, 0},
		{"vol-total", {0x7ffffffbull, 0x7ffffffbull, 1}, false, 0},
		// the LAST member's block offset lands exactly on / just beyond 2^32 (arg = distance beyond 2^32; ~0 = one word short of
		// 2^32 + header length, the last offset a header-relative computation would still see as fitting)
		{"vol-edge", {}, false, 0},
		{"vol-edge", {}, false, 4},
		{"vol-edge", {}, false, 64},
		{"vol-edge", {}, false, ~0ull},
		// the LAST track's data offset is beyond 2^32
		{"clm-total", {G + G / 2, G + G / 2, G + G / 2, 10}, false, 0},
		{"clm-total", {0x7fffff00ull, 0x7fffff00ull, 0x400, 5}, false, 0},
		{"clm-total", {0xffffff00ull, 0x200, 7}, false, 0},
		// the LAST track's data offset exactly on / just beyond 2^32 (arg as for vol-edge; CLM data is not aligned, so +1 exists)
		{"clm-edge", {}, false, 0},
		{"clm-edge", {}, false, 1},
		{"clm-edge", {}, false, ~0ull},
		{"clm-name", {}, false, 9},
		{"clm-name", {}, false, 12},
		// names of more than 8 BYTES that are at most 8 characters in UTF-8 (two-byte letters), packed while the process's C locale and
		// LANG say UTF-8: the index field holds 8 bytes whatever the locale says
		{"clm-name", {}, false, 0x100 + 10},
		{"clm-name", {}, false, 0x100 + 12},
		{"clm-name", {}, false, 0x100 + 16},
		{"prefix", {}, false, 256},       // arg = element count; prefix type from arg range
		{"prefix", {}, false, 300},
		{"prefix", {}, false, 65536},
		{"prefix", {}, false, 70000},
		{"prefix", {}, false, 128},       // i8
		{"prefix", {}, false, 32768},     // i16
		{"prt-layers", {}, false, 0},     // every layer-list length 0..130 against every 7-bit count
		// at-limit quantities that fit (context only: success is not asserted, an over-eager refusal is not a C20 violation)
		{"vol-member", {(1ull << 31) - 1}, true, 0},
		{"vol-edge", {}, true, static_cast<uint64_t>(-4)}, // last block offset 2^32 - 4: representable
		{"clm-edge", {}, true, static_cast<uint64_t>(-1)}, // last data offset 2^32 - 1: representable
		{"clm-name", {}, true, 8},
		{"prefix", {}, true, 255},
		{"prefix", {}, true, 65535},
	};
	return v;
}

struct Limits : Family {
	std::string name() const override { return "limits"; }

	Plan generate(const std::string&, Rng& r, bool thorough) override {
		Plan p;
		const auto& cs = cases();
		size_t nRefuse = 0;
		for (auto& c : cs) if (!c.fits) ++nRefuse;
		// the index enumerates case x {destination absent, pre-existing}; the seed only varies names, order, spellings, faults
		size_t pool = thorough ? cs.size() : nRefuse;
		size_t ci = static_cast<size_t>((g_genIndex / 2) % pool);
		bool sentinel = g_genIndex % 2;
		p.setenv("heap", r.below(256));
		p.setenv("stack", r.below(256));
		p.setenv("sink", 1);
		p.setenv("watchdog", 900);
		p.setenv("iobudget", 400000000ull);
		static const uint64_t SR[] = {0, 0, 65536, 1 << 20};
		p.setenv("short_read", SR[r.below(4)]);
		p.setenv("eintr", r.chance(3, 4) ? 0 : r.range(3, 9));
		if (std::string(cs[ci].kind) == "clm-name" && cs[ci].arg >= 0x100) { p.setenv("clocale", "C.UTF-8"); p.setenv("os.LANG", "C.UTF-8"); p.setenv("os.LC_ALL", "C.UTF-8"); }
		else if (r.chance(1, 4)) { static const char* L[] = {"C", "C.UTF-8", "POSIX", "en_US.UTF-8", "xx_YY.bogus", "tr_TR.ISO-8859-9"}; p.setenv("os.LANG", L[r.below(6)]); }
		Line c = mkline("world", "case");
		c.set("ci", ci).set("sentinel", sentinel ? 1 : 0).set("nseed", hex64(r.next())).set("perm", hex64(r.next()));
		p.world.push_back(c);
		p.ops.push_back(mkline("op", "attempt"));
		return p;
	}

	void execute(const Plan& plan, RunCtx& ctx) override {
		const auto& cs = cases();
		size_t ci = 0;
		bool sentinel = false;
		uint64_t nseed = 1, perm = 1;
		for (auto& l : plan.world) if (l.verb == "case") { ci = static_cast<size_t>(l.u("ci") % cs.size()); sentinel = l.u("sentinel") != 0; nseed = l.u("nseed", 1); perm = l.u("perm", 1); }
		const Case& c = cs[ci];
		std::string kind = c.kind;
		Rng r(nseed);
		ctx.setOp(0);
		ctx.schedNote(kind + std::to_string(ci));
		ctx.count("fault.limit_case_" + kind);
		std::string what;
		auto refuseOrFit = [&](Out o, const std::string& desc) {
			if (o == ErrOther) ctx.fail("C20.refuse", desc + ": non-std exception");
			if (!c.fits && o == OkOut) ctx.fail("C20.refuse", desc + ": the quantity does not fit its on-disk field, but the writer reported success (a truncated or wrapped value was emitted)");
			if (c.fits) ctx.count(o == OkOut ? "probe.at_limit_fit_succeeded" : "probe.at_limit_fit_refused");
			else ctx.count("probe.refused_" + kind);
		};
		if (kind == "vol-member" || kind == "vol-total" || kind == "vol-edge") {
			std::vector<std::string> list;
			std::vector<uint64_t> sizes = c.sizes;
			std::vector<std::string> names;
			if (kind == "vol-edge") {
				// three members a < b < c; the header length follows from the names (independent VOL description), and b's size is
				// chosen so that c's block offset is exactly the target
				std::vector<ref::VolMember> ms(3);
				for (size_t i = 0; i < 3; ++i) { names.push_back(std::string(1, static_cast<char>('a' + i)) + randName(r, 1, 9, false) + ".bin"); ms[i].name = names[i]; }
				uint64_t H = ref::encodeVol(ms).headerEnd;
				uint64_t a = 0x7ffffff0ull;
				uint64_t target = (1ull << 32) + (c.arg == ~0ull ? H - 4 : c.arg);
				uint64_t b = target - H - 16 - a;
				if (b >= (1ull << 31) || (b & 3)) throw std::runtime_error("vol-edge: member size out of the intended range");
				sizes = {a, b, 5};
			}
			for (size_t i = 0; i < sizes.size(); ++i) {
				std::string nm = "_in/" + (names.empty() ? std::string(1, static_cast<char>('a' + i)) + randName(r, 1, 9, false) + ".bin" : names[i]);
				disk::putSparse(nm, sizes[i]);
				list.push_back(nm);
			}
			Rng pr(perm);
			for (size_t i = list.size(); i > 1; --i) std::swap(list[i - 1], list[pr.below(i)]);
			std::string out = r.chance(1, 2) ? "_big.vol" : "_o/Big.vol";
			if (sentinel) disk::put(out, prngBytes(nseed ^ 5, 64));
			auto before = disk::snapshot();
			Out o = callLib(plan, [&] { Archive::VolFile::CreateArchive(out, list); }, &what);
			std::string desc = "VolFile::CreateArchive with member sizes";
			for (auto s : sizes) desc += " " + std::to_string(s);
			if (kind == "vol-edge") desc += " (last block offset 2^32" + std::string(static_cast<int64_t>(c.arg) < 0 && c.arg != ~0ull ? " - 4" : c.arg == ~0ull ? " + header length - 4" : " + " + std::to_string(c.arg)) + ")";
			refuseOrFit(o, desc);
			if (!c.fits) {
				std::string diff = disk::snapshotDiff(before, disk::snapshot());
				if (!diff.empty()) ctx.fail("C20.vol-dest-untouched", desc + ": refused, but the destination was created or altered:" + diff);
			}
		} else if (kind == "clm-total" || kind == "clm-edge") {
			std::vector<std::string> list;
			std::vector<uint64_t> sizes = c.sizes;
			if (kind == "clm-edge") {
				// three tracks; header = 60 + 16 per entry (independent CLM description); the third track's data offset is the target
				const uint64_t H = 60 + 16 * 3, a = 0x7ffffff0ull;
				uint64_t target = (1ull << 32) + (c.arg == ~0ull ? H - 1 : c.arg);
				sizes = {a, target - H - a, 7};
			}
			for (size_t i = 0; i < sizes.size(); ++i) {
				// real 46-byte header (RIFF size and data length consistent) + sparse body
				ref::WavSpec w;
				std::vector<uint8_t> hdr = ref::encodeWav(w);
				uint32_t dataLen = static_cast<uint32_t>(sizes[i]);
				uint32_t riff = static_cast<uint32_t>(38 + sizes[i]);
				for (int k = 0; k < 4; ++k) { hdr[4 + static_cast<size_t>(k)] = static_cast<uint8_t>(riff >> (8 * k)); hdr[42 + static_cast<size_t>(k)] = static_cast<uint8_t>(dataLen >> (8 * k)); }
				std::string nm = "_in/" + std::string(1, static_cast<char>('a' + i)) + randName(r, 1, 6, false) + ".wav";
				disk::put(nm, hdr);
				if (truncate(nm.c_str(), static_cast<off_t>(46 + sizes[i])) != 0) throw std::runtime_error("cannot extend sparse wav");
				list.push_back(nm);
			}
			std::string out = "_big.clm";
			if (sentinel) disk::put(out, prngBytes(nseed ^ 5, 64));
			Out o = callLib(plan, [&] { Archive::ClmFile::CreateArchive(out, list); }, &what);
			std::string desc = "ClmFile::CreateArchive with data lengths";
			for (auto s : sizes) desc += " " + std::to_string(s);
			refuseOrFit(o, desc);
		} else if (kind == "clm-name") {
			ref::WavSpec w;
			w.data = prngBytes(nseed, 10);
			std::string base;
			if (c.arg >= 0x100) { for (uint64_t q = 0; q < (c.arg - 0x100) / 2; ++q) { base.push_back(static_cast<char>(0xC3)); base.push_back(static_cast<char>(0xA0 + r.below(0x17))); } ctx.count("probe.multibyte_name_under_utf8_locale"); }
			else base = randName(r, static_cast<size_t>(c.arg), static_cast<size_t>(c.arg), false);
			std::string nm = "_in/" + base + ".wav";
			disk::put(nm, ref::encodeWav(w));
			Out o = callLib(plan, [&] { Archive::ClmFile::CreateArchive("_n.clm", {nm}); }, &what);
			refuseOrFit(o, "ClmFile::CreateArchive with a " + std::to_string(base.size()) + "-byte base name" + (c.arg >= 0x100 ? " (" + std::to_string(base.size() / 2) + " two-byte UTF-8 letters, C locale set to C.UTF-8)" : ""));
		} else if (kind == "prefix") {
			size_t n = static_cast<size_t>(c.arg);
			std::vector<uint8_t> cont = prngBytes(nseed, n);
			std::string s(cont.begin(), cont.end());
			Out o = callLib(plan, [&] {
				Stream::DynamicMemoryWriter w;
				bool str = nseed & 1;
				if (n == 128) { if (str) w.Write<int8_t>(s); else w.Write<int8_t>(cont); }
				else if (n <= 300) { if (str) w.Write<uint8_t>(s); else w.Write<uint8_t>(cont); }
				else if (n == 32768) { if (str) w.Write<int16_t>(s); else w.Write<int16_t>(cont); }
				else { if (str) w.Write<uint16_t>(s); else w.Write<uint16_t>(cont); }
			}, &what);
			refuseOrFit(o, "size-prefixed write of a " + std::to_string(n) + "-element container");
		} else if (kind == "prt-layers") {
			size_t pairs = 0;
			for (size_t len = 0; len <= 130; ++len) {
				for (unsigned count = 0; count < 128; ++count) {
					if (len == count) continue;
					ArtFile art{};
					Animation an{};
					Animation::Frame fr{};
					fr.layerMetadata.count = static_cast<uint8_t>(count);
					fr.layerMetadata.bReadOptionalData = (len + count) & 1;
					fr.unknownBitfield.count = static_cast<uint8_t>(r.below(128));
					fr.unknownBitfield.bReadOptionalData = (len ^ count) & 1;
					fr.layers.resize(len);
					an.frames.push_back(fr);
					art.animations.push_back(an);
					Out o = callLib(plan, [&] { Stream::DynamicMemoryWriter w; art.Write(w); }, &what);
					if (o == ErrOther) ctx.fail("C20.refuse", "non-std exception");
					if (o == OkOut) ctx.fail("C20.refuse", "ArtFile::Write of a frame with " + std::to_string(len) + " layers but a recorded 7-bit layer count of " + std::to_string(count) + " succeeded");
					if ((len + count) % 5 == 0) {
						// refused every time: the same object once more
						o = callLib(plan, [&] { Stream::DynamicMemoryWriter w; art.Write(w); }, &what);
						if (o == OkOut) ctx.fail("C20.refuse", "ArtFile::Write of a frame with " + std::to_string(len) + " layers but a recorded 7-bit layer count of " + std::to_string(count) + " was refused once and succeeded on the second attempt on the same object");
					}
					++pairs;
				}
			}
			// the same for objects that come out of ArtFile::Read (a valid file, loaded) and are then edited in place so that totals
			// stay what they were when loaded: the count changed under an unchanged list, or a layer moved from one frame to another
			for (size_t len = 0; len <= 24; ++len) {
				for (unsigned delta = 1; delta <= 3; ++delta) {
					ArtFile valid{};
					Animation an{};
					Animation::Frame f1{}, f2{};
					f1.layerMetadata.count = static_cast<uint8_t>(len); f1.layers.resize(len);
					f2.layerMetadata.count = static_cast<uint8_t>(len + delta); f2.layers.resize(len + delta);
					an.frames.push_back(f1); an.frames.push_back(f2);
					valid.animations.push_back(an);
					ArtFile loaded;
					Out o = callLib(plan, [&] { Stream::DynamicMemoryWriter w; valid.Write(w); auto rd = w.GetReader(); loaded = ArtFile::Read(rd); }, &what);
					if (o != OkOut) continue; // not the subject here
					for (int how = 0; how < 2; ++how) {
						ArtFile edited = loaded;
						auto& fs = edited.animations[0].frames;
						if (how == 0) fs[0].layerMetadata.count = static_cast<uint8_t>((len + delta) & 127);
						else { fs[0].layers.push_back(fs[1].layers.back()); fs[1].layers.pop_back(); }
						o = callLib(plan, [&] { Stream::DynamicMemoryWriter w; edited.Write(w); }, &what);
						if (o == ErrOther) ctx.fail("C20.refuse", "non-std exception");
						if (o == OkOut) ctx.fail("C20.refuse", std::string("ArtFile::Write of a LOADED structure edited in place (") + (how == 0 ? "7-bit count changed under an unchanged layer list" : "one layer moved to another frame") + ", totals as loaded) succeeded although frame 0 has " + std::to_string(fs[0].layers.size()) + " layers and a count of " + std::to_string(fs[0].layerMetadata.count));
						++pairs;
					}
				}
			}
			// several inconsistent frames in one file whose differences cancel (file-wide layer total == sum of counts), and layer
			// lists that differ from the 7-bit count by a multiple of 256
			for (unsigned c = 0; c < 128; c += 3) {
				for (unsigned d = 1; d <= 6; ++d) {
					ArtFile art{};
					Animation an{};
					Animation::Frame f1{}, f2{}, f3{};
					f1.layerMetadata.count = static_cast<uint8_t>(c); f1.layers.resize(c + d);
					f2.layerMetadata.count = static_cast<uint8_t>((c + d) & 127); f2.layers.resize(((c + d) & 127) >= d ? ((c + d) & 127) - d : 0);
					f3.layerMetadata.count = 2; f3.layers.resize(2);
					if (f2.layers.size() + d != f2.layerMetadata.count) continue;
					an.frames.push_back(f1); an.frames.push_back(f3); an.frames.push_back(f2);
					if (d % 2) { Animation an2{}; an2.frames.push_back(an.frames.back()); an.frames.pop_back(); art.animations.push_back(an); art.animations.push_back(an2); } else art.animations.push_back(an);
					Out o = callLib(plan, [&] { Stream::DynamicMemoryWriter w; art.Write(w); }, &what);
					if (o == OkOut) ctx.fail("C20.refuse", "ArtFile::Write of a file with two inconsistent frames (count " + std::to_string(c) + " with " + std::to_string(c + d) + " layers, count " + std::to_string(f2.layerMetadata.count) + " with " + std::to_string(f2.layers.size()) + " layers) succeeded");
					++pairs;
				}
				for (unsigned m = 1; m <= 2; ++m) {
					ArtFile art{};
					Animation an{};
					Animation::Frame f{};
					f.layerMetadata.count = static_cast<uint8_t>(c);
					f.layers.resize(c + 256 * m);
					an.frames.push_back(f);
					art.animations.push_back(an);
					Out o = callLib(plan, [&] { Stream::DynamicMemoryWriter w; art.Write(w); }, &what);
					if (o == OkOut) ctx.fail("C20.refuse", "ArtFile::Write of a frame with count " + std::to_string(c) + " and " + std::to_string(c + 256 * m) + " layers succeeded");
					++pairs;
				}
			}
			ctx.evaluations = pairs;
			ctx.nontrivialEvals = pairs;
			ctx.distinctEvals = pairs;
			ctx.count("probe.refused_prt-layers", pairs);
		} else throw std::runtime_error("bad case kind");
		if (kind != "prt-layers") { ctx.evaluations = 1; ctx.nontrivialEvals = 1; ctx.distinctEvals = 1; }
		ctx.nontrivial = true;
		ctx.count("library_calls", 1);
		ctx.event(kind + " " + std::to_string(ci) + (sentinel ? " sentinel" : " absent"));
	}
	std::string signatureDetail(const Plan& p, const Violation&) override {
		for (auto& l : p.world) if (l.verb == "case") { const auto& cs = cases(); const Case& c = cs[static_cast<size_t>(l.u("ci") % cs.size())]; std::string d = c.kind; for (auto s : c.sizes) d += ":" + hex64(s); if (c.arg) d += ":" + std::to_string(c.arg); return d; }
		return "";
	}
};
FamilyRegistrar regLimits(new Limits);

} // namespace
} // namespace sim

// Picture / sprite-metadata worlds built from plan lines, and deep comparison of the library's
// structures with the reference models (shared by the image stream families and image-damage).
#pragma once
#include <algorithm>
#include "backends.h"
#include "../models/refimg.h"
#include "Bitmap/BitmapFile.h"
#include "Sprite/ArtFile.h"
#include "Sprite/TilesetLoader.h"
#include <cstring>

namespace sim {

inline size_t bmpPitchCheck(const ref::RBmp& b) { return b.pitch() * b.rows(); }

inline ref::RBmp bmpFromSpec(const Line& l) {
	ref::RBmp b;
	Rng r(l.u("seed", 1));
	b.bits = static_cast<int>(l.u("bits", 8));
	if (b.bits != 1 && b.bits != 4 && b.bits != 8) throw std::runtime_error("bad bmp depth in plan");
	b.w = static_cast<int32_t>(l.u("w", 0));
	b.h = static_cast<int32_t>(l.i("h", 0));
	if (b.w < 0 || b.w > 20000 || b.rows() > 140000 || bmpPitchCheck(b) > (8u << 20)) throw std::runtime_error("bmp spec too large");
	b.clrUsed = static_cast<uint32_t>(l.u("used", 0));
	if (b.clrUsed > (1u << b.bits)) b.clrUsed = 1u << b.bits;
	size_t npal = b.clrUsed ? b.clrUsed : (1u << b.bits);
	b.clrImportant = static_cast<uint32_t>(r.below((1u << b.bits) + 1));
	if (l.u("junkhdr", 0)) { b.imageSize = static_cast<uint32_t>(r.next()); b.xppm = static_cast<uint32_t>(r.next()); b.yppm = static_cast<uint32_t>(r.next()); }
	for (size_t i = 0; i < npal; ++i) { std::array<uint8_t, 4> c; auto v = prngBytes(r.next(), 4); memcpy(c.data(), v.data(), 4); b.palette.push_back(c); }
	b.pixels = prngBytes(r.next(), b.pitch() * b.rows()); // padding bytes are arbitrary in the input
	if (l.u("rowpool", 0) && b.rows() && b.pitch()) {
		// rows drawn from a small pool: equal rows (also mirrored pairs) are common, as in real pictures with borders and flat areas
		size_t pool = 1 + static_cast<size_t>(l.u("rowpool") % 3), pitch = b.pitch();
		std::vector<uint8_t> base = prngBytes(r.next(), pool * pitch);
		for (size_t y = 0; y < b.rows(); ++y) if (!r.chance(1, 5)) memcpy(b.pixels.data() + y * pitch, base.data() + r.below(pool) * pitch, pitch);
	}
	return b;
}

// Two palette heads (entries 0 and 1) that differ but give the whole palette the same 32-bit FNV-1a value - over the bytes in memory
// order (lane 0) or in file order, blue first (lane 1). The rest of the two palettes is shared, which keeps the collision.
inline void paletteTwinHead(uint64_t k, int side, int lane, std::array<uint8_t, 4>& e0, std::array<uint8_t, 4>& e1) {
	static const uint64_t T[][2] = {
		{0xfd148daf36882ff2ull, 0x718479247ca0eef0ull}, {0xff7c80bd43c8dc8bull, 0x5106401564f298e4ull}, {0x5a10378534e85fd0ull, 0x372091cea3fcb6f4ull},
		{0x2467d55209372f2dull, 0xa3055acd082a0e79ull}, {0xe076694e83b91dafull, 0x852dbf263241f1a2ull}, {0x661ec2ca52882e42ull, 0x189a538d39f430c3ull},
		{0x4be52497293da152ull, 0x6df6132e5965c18full}, {0x483ed1bd63b890ceull, 0x9f01abb6e0629161ull},
	};
	uint64_t v = T[k % 8][side & 1];
	uint8_t b[8];
	memcpy(b, &v, 8);
	memcpy(e0.data(), b, 4); memcpy(e1.data(), b + 4, 4);
	if (lane) { std::swap(e0[0], e0[2]); std::swap(e1[0], e1[2]); }
}

inline ref::RTileset tilesetFromSpec(const Line& l) {
	ref::RTileset t;
	Rng r(l.u("seed", 1));
	uint64_t tiles = l.u("tiles", 1);
	if (tiles > 4200) throw std::runtime_error("tileset too large");
	t.h = static_cast<uint32_t>(32 * tiles);
	for (auto& c : t.palette) { auto v = prngBytes(r.next(), 4); memcpy(c.data(), v.data(), 4); }
	if (l.has("paltwin")) paletteTwinHead(l.u("paltwin"), 1, static_cast<int>(l.u("paltwinlane", 0)), t.palette[0], t.palette[1]);
	t.rows = prngBytes(r.next(), 32 * static_cast<size_t>(t.h));
	if (l.u("rowpool", 0) && t.h) {
		size_t pool = 1 + static_cast<size_t>(l.u("rowpool") % 3);
		std::vector<uint8_t> base = prngBytes(r.next(), pool * 32);
		for (uint32_t y = 0; y < t.h; ++y) if (!r.chance(1, 6)) memcpy(t.rows.data() + static_cast<size_t>(y) * 32, base.data() + r.below(pool) * 32, 32);
	}
	return t;
}

inline ref::RPrt prtFromSpec(const Line& l) {
	ref::RPrt p;
	Rng r(l.u("seed", 1));
	size_t npal = static_cast<size_t>(l.u("npal", 0)), nimg = static_cast<size_t>(l.u("nimg", 0)), nanim = static_cast<size_t>(l.u("nanim", 0));
	if (npal > 16 || nimg > 64 || nanim > 32) throw std::runtime_error("prt spec too large");
	bool canonical = l.u("canonical", 1) != 0;
	for (size_t i = 0; i < npal; ++i) {
		ref::RPrt::Pal pal;
		if (!canonical && r.chance(1, 2)) { if (r.chance(1, 2)) pal.hdr.tagCount = static_cast<uint32_t>(r.next()); else { uint32_t d = static_cast<uint32_t>(4 * r.range(1, 10)); pal.hdr.secLen = 4 + d; pal.hdr.dataLen = 1024 - d; } }
		for (auto& c : pal.colors) { auto v = prngBytes(r.next(), 4); memcpy(c.data(), v.data(), 4); }
		// palettes related to their predecessor: a repeat, the predecessor with two channels exchanged (file order of one = memory order
		// of the other), the predecessor reversed, or a grey ramp (every channel order reads the same)
		if (i > 0 && r.chance(1, 3)) {
			const auto& prev = p.palettes.back().colors;
			switch (r.below(5)) {
			case 0: pal.colors = prev; break;
			case 1: pal.colors = prev; for (auto& c : pal.colors) std::swap(c[0], c[2]); break;
			case 2: pal.colors = prev; for (auto& c : pal.colors) std::swap(c[0], c[1]); break;
			case 3: pal.colors = prev; std::reverse(pal.colors.begin(), pal.colors.end()); break;
			default: for (size_t k = 0; k < pal.colors.size(); ++k) { pal.colors[k][0] = pal.colors[k][1] = pal.colors[k][2] = static_cast<uint8_t>(k); } break;
			}
		}
		p.palettes.push_back(pal);
	}
	if (npal == 0) nimg = 0;
	for (size_t i = 0; i < nimg; ++i) {
		ref::RPrt::Image im;
		im.width = static_cast<uint32_t>(r.chance(1, 8) ? r.next() & 0xfffffff0u : r.below(200));
		im.scanLine = (im.width + 3) & ~3u;
		im.height = static_cast<uint32_t>(r.chance(1, 8) ? r.next() : r.below(100));
		im.dataOffset = static_cast<uint32_t>(r.chance(1, 4) ? r.next() : r.below(5000));
		im.type = static_cast<uint16_t>(r.next());
		im.paletteIndex = static_cast<uint16_t>(r.below(npal));
		p.images.push_back(im);
	}
	for (size_t i = 0; i < nanim; ++i) {
		ref::RPrt::Anim a;
		a.unknown = static_cast<uint32_t>(r.next());
		for (auto& x : a.rect) x = static_cast<int32_t>(r.next());
		for (auto& x : a.point) x = static_cast<int32_t>(r.next());
		a.unknown2 = static_cast<uint32_t>(r.next());
		size_t nf = static_cast<size_t>(r.below(7));
		for (size_t f = 0; f < nf; ++f) {
			ref::RPrt::Frame fr;
			uint8_t count = static_cast<uint8_t>(r.chance(1, 10) ? 127 : r.chance(1, 5) ? 0 : r.below(12));
			fr.layerMeta = static_cast<uint8_t>(count | (r.chance(1, 2) ? 0x80 : 0));
			fr.unknownBits = static_cast<uint8_t>(r.below(256));
			if (fr.layerMeta & 0x80) { fr.opt[0] = static_cast<uint8_t>(r.next()); fr.opt[1] = static_cast<uint8_t>(r.next()); }
			if (fr.unknownBits & 0x80) { fr.opt[2] = static_cast<uint8_t>(r.next()); fr.opt[3] = static_cast<uint8_t>(r.next()); }
			for (uint8_t k = 0; k < count; ++k) { std::array<uint8_t, 8> ly; auto v = prngBytes(r.next(), 8); memcpy(ly.data(), v.data(), 8); fr.layers.push_back(ly); }
			a.frames.push_back(fr);
		}
		size_t nc = static_cast<size_t>(r.below(6));
		for (size_t c = 0; c < nc; ++c) { std::array<uint8_t, 16> uc; auto v = prngBytes(r.next(), 16); memcpy(uc.data(), v.data(), 16); a.unknownContainer.push_back(uc); }
		p.anims.push_back(a);
	}
	p.unknownCount = static_cast<uint32_t>(r.next());
	// lists larger than a megabyte of encoded data (a reader that takes size-prefixed lists in portions crosses its portion size)
	size_t hugeImg = static_cast<size_t>(l.u("hugeimg", 0)), hugeUc = static_cast<size_t>(l.u("hugeuc", 0));
	if (hugeImg > 200000 || hugeUc > 200000) throw std::runtime_error("prt spec too large");
	if (npal) for (size_t i = 0; i < hugeImg; ++i) {
		ref::RPrt::Image im;
		uint64_t x = mix64(l.u("seed", 1), i);
		im.width = static_cast<uint32_t>(x % 200); im.scanLine = (im.width + 3) & ~3u; im.height = static_cast<uint32_t>((x >> 8) % 100);
		im.dataOffset = static_cast<uint32_t>(x >> 16); im.type = static_cast<uint16_t>(x >> 48); im.paletteIndex = static_cast<uint16_t>((x >> 40) % npal);
		p.images.push_back(im);
	}
	if (hugeUc && !p.anims.empty()) {
		auto& uc = p.anims[l.u("seed", 1) % p.anims.size()].unknownContainer;
		for (size_t c = 0; c < hugeUc; ++c) { std::array<uint8_t, 16> e; uint64_t x = mix64(l.u("seed", 1) ^ 0x75, c); memcpy(e.data(), &x, 8); x = mix64(x, 1); memcpy(e.data() + 8, &x, 8); uc.push_back(e); }
	}
	return p;
}

// harness-side canonical dump of the library's structure (no comparison operator exists in the library)
inline std::vector<uint8_t> dumpArt(const OP2Utility::ArtFile& a) {
	std::vector<uint8_t> o;
	auto u32 = [&](uint64_t v) { ref::putU32(o, static_cast<uint32_t>(v)); };
	u32(a.palettes.size());
	for (auto& p : a.palettes) for (auto& c : p) { o.push_back(c.red); o.push_back(c.green); o.push_back(c.blue); o.push_back(c.alpha); }
	u32(a.imageMetas.size());
	for (auto& im : a.imageMetas) { u32(im.scanLineByteWidth); u32(im.pixelDataOffset); u32(im.height); u32(im.width); uint16_t t; memcpy(&t, &im.type, 2); u32(t); u32(im.paletteIndex); }
	u32(a.animations.size());
	u32(a.unknownAnimationCount);
	for (auto& an : a.animations) {
		u32(an.unknown); u32(static_cast<uint32_t>(an.selectionRect.x1)); u32(static_cast<uint32_t>(an.selectionRect.y1)); u32(static_cast<uint32_t>(an.selectionRect.x2)); u32(static_cast<uint32_t>(an.selectionRect.y2));
		u32(static_cast<uint32_t>(an.pixelDisplacement.x)); u32(static_cast<uint32_t>(an.pixelDisplacement.y)); u32(an.unknown2);
		u32(an.frames.size());
		for (auto& f : an.frames) {
			uint8_t lm, ub; memcpy(&lm, &f.layerMetadata, 1); memcpy(&ub, &f.unknownBitfield, 1);
			o.push_back(lm); o.push_back(ub); o.push_back(f.optional1); o.push_back(f.optional2); o.push_back(f.optional3); o.push_back(f.optional4);
			u32(f.layers.size());
			for (auto& ly : f.layers) { const uint8_t* p = reinterpret_cast<const uint8_t*>(&ly); o.insert(o.end(), p, p + 8); }
		}
		u32(an.unknownContainer.size());
		for (auto& c : an.unknownContainer) { const uint8_t* p = reinterpret_cast<const uint8_t*>(&c); o.insert(o.end(), p, p + 16); }
	}
	return o;
}

inline std::string comparePrt(const OP2Utility::ArtFile& a, const ref::RPrt& m) {
	if (a.palettes.size() != m.palettes.size()) return "palette count " + std::to_string(a.palettes.size()) + ", expected " + std::to_string(m.palettes.size());
	for (size_t i = 0; i < m.palettes.size(); ++i) for (size_t k = 0; k < 256; ++k) {
		const auto& c = a.palettes[i][k];
		const auto& w = m.palettes[i].colors[k];
		if (c.red != w[0] || c.green != w[1] || c.blue != w[2] || c.alpha != w[3]) return "palette " + std::to_string(i) + " entry " + std::to_string(k) + ": memory holds (r,g,b) = (" + std::to_string(c.red) + "," + std::to_string(c.green) + "," + std::to_string(c.blue) + "), the file's blue-green-red bytes decode to (" + std::to_string(w[0]) + "," + std::to_string(w[1]) + "," + std::to_string(w[2]) + ")";
	}
	if (a.imageMetas.size() != m.images.size()) return "image count";
	for (size_t i = 0; i < m.images.size(); ++i) {
		const auto& x = a.imageMetas[i];
		const auto& y = m.images[i];
		uint16_t t; memcpy(&t, &x.type, 2);
		if (x.scanLineByteWidth != y.scanLine || x.pixelDataOffset != y.dataOffset || x.height != y.height || x.width != y.width || t != y.type || x.paletteIndex != y.paletteIndex) return "image " + std::to_string(i);
	}
	if (a.animations.size() != m.anims.size()) return "animation count";
	if (a.unknownAnimationCount != m.unknownCount) return "unknown count";
	for (size_t i = 0; i < m.anims.size(); ++i) {
		const auto& x = a.animations[i];
		const auto& y = m.anims[i];
		std::string id = "animation " + std::to_string(i);
		if (x.unknown != y.unknown || x.unknown2 != y.unknown2 || x.selectionRect.x1 != y.rect[0] || x.selectionRect.y1 != y.rect[1] || x.selectionRect.x2 != y.rect[2] || x.selectionRect.y2 != y.rect[3] || x.pixelDisplacement.x != y.point[0] || x.pixelDisplacement.y != y.point[1]) return id + " fixed fields";
		if (x.frames.size() != y.frames.size()) return id + " frame count";
		for (size_t f = 0; f < y.frames.size(); ++f) {
			const auto& fx = x.frames[f];
			const auto& fy = y.frames[f];
			uint8_t lm, ub; memcpy(&lm, &fx.layerMetadata, 1); memcpy(&ub, &fx.unknownBitfield, 1);
			std::string fid = id + " frame " + std::to_string(f);
			if (lm != fy.layerMeta || ub != fy.unknownBits) return fid + " flag bytes";
			if (fx.optional1 != fy.opt[0] || fx.optional2 != fy.opt[1] || fx.optional3 != fy.opt[2] || fx.optional4 != fy.opt[3]) return fid + " optional bytes (must be the file's when flagged, zero otherwise)";
			if (fx.layers.size() != fy.layers.size()) return fid + " layer count";
			for (size_t k = 0; k < fy.layers.size(); ++k) if (memcmp(&fx.layers[k], fy.layers[k].data(), 8) != 0) return fid + " layer " + std::to_string(k);
		}
		if (x.unknownContainer.size() != y.unknownContainer.size()) return id + " unknown container length";
		for (size_t k = 0; k < y.unknownContainer.size(); ++k) if (memcmp(&x.unknownContainer[k], y.unknownContainer[k].data(), 16) != 0) return id + " unknown container entry " + std::to_string(k);
	}
	return "";
}

} // namespace sim

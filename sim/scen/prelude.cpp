// Prelude: the library history that precedes every plan in every simrun process (worker, gate child, replay), always the same. A library that keeps state across calls in statics, thread-locals or lazily initialised tables "latches" whatever its
// first call saw; with a fixed first history every later run of the process meets the same latched state, so a defect of that
// kind shows in (nearly) every run and - because a fresh process replays the same prelude first - reproduces exactly.
// The prelude deliberately uses values the properties' own subjects rarely have (odd pitches, a directory that disappears
// afterwards, a working directory that is left again), asserts nothing and swallows every exception.
#include "../kernel/core.h"
#include "../seams/env.h"
#include "Archive/ClmFile.h"
#include "Archive/VolFile.h"
#include "Bitmap/BitmapFile.h"
#include "Map/Map.h"
#include "Sprite/ArtFile.h"
#include "Sprite/TilesetLoader.h"
#include "Stream/DynamicMemoryWriter.h"
#include "Stream/FileReader.h"
#include "Stream/FileWriter.h"
#include "Stream/MemoryReader.h"
#include "Stream/SliceReader.h"
#include <unistd.h>

using namespace OP2Utility;

namespace sim {

void processPrelude() {
	// (run before EVERY plan, not only the first of a process: state that latches the LAST value seen - "the directory I created
	// most recently" - is then the same at the start of every run, whatever the worker executed before)
	auto quiet = [](auto&& f) { try { f(); } catch (...) {} };
	disk::wipe();
	// bitmaps of pitches 8, 4 and 12 flipped and written before any tileset is
	quiet([] { auto b = BitmapFile::CreateIndexed(8, 8, 2); b.InvertScanLines(); Stream::DynamicMemoryWriter w; b.WriteIndexed(w); });
	quiet([] { auto b = BitmapFile::CreateIndexed(1, 20, 3); b.InvertScanLines(); b.SwapRedAndBlue(); Stream::DynamicMemoryWriter w; b.WriteIndexed(w); });
	quiet([] { auto b = BitmapFile::CreateIndexed(4, 17, -5); b.InvertScanLines(); b.Validate(); });
	// a tileset saved and loaded once, with a palette of its own
	quiet([] {
		std::vector<Color> pal(256);
		for (size_t i = 0; i < 256; ++i) { pal[i].red = static_cast<uint8_t>(i); pal[i].green = static_cast<uint8_t>(255 - i); pal[i].blue = static_cast<uint8_t>(i * 7); pal[i].alpha = static_cast<uint8_t>(i ^ 0x5a); }
		auto t = BitmapFile::CreateIndexed(8, 32, 32, pal, std::vector<uint8_t>(1024, 0x33));
		Stream::DynamicMemoryWriter w; Tileset::WriteCustomTileset(w, t);
		auto rd = w.GetReader(); (void)Tileset::ReadTileset(rd);
	});
	// files: a relative open inside a directory that is left again, a writer into a directory that disappears afterwards
	quiet([&] {
		disk::put("_prelude/in/first.bin", std::vector<uint8_t>(40, 7));
		if (chdir("_prelude/in") == 0) {
			quiet([] { Stream::FileReader r("first.bin"); char c[8]; r.Read(c, 8); auto s = r.Slice(4); (void)s; });
			quiet([] { Stream::FileWriter w("sub/out.bin"); w.Write("abc", 3); });
			quiet([] { Stream::FileWriter w("out/dest.bin"); w.Write("abc", 3); });
			if (chdir("../..") != 0) _exit(70);
		}
	});
	quiet([] { Stream::FileWriter w("sub/prelude.bin"); w.Write("xyz", 3); });
	quiet([] { Stream::FileWriter w("_w/prelude.bin"); w.Write("xyz", 3); });
	// a volume with two members packed, listed and read by name; a default map and art file written
	quiet([] {
		disk::put("_prelude/a_b.txt", std::vector<uint8_t>(13, 1));
		disk::put("_prelude/aAb.txt", std::vector<uint8_t>(5, 2));
		Archive::VolFile::CreateArchive("_prelude/p.vol", {"_prelude/a_b.txt", "_prelude/aAb.txt"});
		Archive::VolFile v("_prelude/p.vol");
		(void)v.Contains("A_B.TXT"); (void)v.GetIndex("./aab.txt");
		auto s = static_cast<Archive::ArchiveFile&>(v).OpenStream("a_b.txt"); char c[4]; s->Read(c, 4);
		v.ExtractAllFiles("_prelude/x");
	});
	quiet([] { Map m; Stream::DynamicMemoryWriter w; m.Write(w); });
	quiet([] { ArtFile a{}; Stream::DynamicMemoryWriter w; a.Write(w); });
	quiet([] { const char z[] = "prelude string\0tail"; Stream::MemoryReader r(z, sizeof z); (void)r.ReadNullTerminatedString(); });
	disk::wipe();
}

} // namespace sim

// Family "archive-streams" (C13): member streams opened from one VolFile / ClmFile (reference-encoded)
// as actors, interleaved by the seeded scheduler with each other, with slices and copies of them and
// with calls on the archive object itself (listing, lookup, OpenStream, ExtractFile), all of which use
// the archive's single shared file reader. After every step every live stream must still match its
// own model: positions are independent under every interleaving.
#include "volworld.h"
#include "../models/refclm.h"
#include "Archive/ClmFile.h"
#include "Archive/VolFile.h"
#include "Stream/SliceReader.h"
#include <memory>
#include <stdexcept>

using namespace OP2Utility;

namespace sim {
namespace {

struct SActor {
	std::unique_ptr<Stream::BidirectionalReader> obj;
	std::vector<uint8_t> data; // what this stream must expose as positions 0..n
	uint64_t pos = 0;
	size_t member = 0;
};

struct ArchiveStreams : Family {
	std::string name() const override { return "archive-streams"; }

	Plan generate(const std::string&, Rng& r, bool thorough) override {
		Plan p;
		swarmEnv(p, r, true, true);
		bool clm = r.chance(1, 3);
		Line t = mkline("world", "target");
		t.set("kind", clm ? "clm" : "vol");
		p.world.push_back(t);
		if (clm) {
			size_t n = static_cast<size_t>(r.range(1, 6));
			for (size_t i = 0; i < n; ++i) { Line tr = mkline("world", "track"); tr.set("name", randName(r, 1, 8, false)).set("cseed", hex64(r.next())).set("len", r.chance(1, 6) ? r.below(3) : r.chance(1, 12) ? boundarySize(r, 12) : r.below(900)); p.world.push_back(tr); }
		} else genMembers(p, r, 8, 900, true);
		size_t nops = static_cast<size_t>(r.range(10, thorough ? 80 : 50));
		for (size_t i = 0; i < nops; ++i) {
			Line op;
			uint64_t c = r.below(100);
			uint64_t a = r.below(8);
			if (c < 14 || i < 2) { op = mkline("op", "open"); op.set("i", r.below(64)).set("byname", r.below(2)).set("case", r.below(6)).set("via", r.below(2)); }
			else if (c < 40) { op = mkline("op", "read"); op.set("a", a).set("n", "~" + std::to_string(r.below(100000))); }
			else if (c < 48) { op = mkline("op", "partial"); op.set("a", a).set("n", "~" + std::to_string(r.below(100000))); }
			else if (c < 58) { op = mkline("op", "seek"); op.set("a", a).set("p", "~" + std::to_string(r.below(100000))); }
			else if (c < 63) { op = mkline("op", "peek"); op.set("a", a).set("n", "~" + std::to_string(r.below(100000))); }
			else if (c < 69) { op = mkline("op", "slice"); op.set("a", a).set("s", "~" + std::to_string(r.below(100000))).set("n", "~" + std::to_string(r.below(100000))); }
			else if (c < 73) { op = mkline("op", "copy"); op.set("a", a); }
			else if (c < 77) { op = mkline("op", "drop"); op.set("a", a); }
			else if (c < 83) { op = mkline("op", "arcname"); op.set("i", r.below(64)).set("via", r.below(2)); }
			else if (c < 89) { op = mkline("op", "arcindex"); op.set("i", r.below(64)).set("case", r.below(6)).set("via", r.below(2)); }
			else if (c < 96) { op = mkline("op", "arcextract"); op.set("i", r.below(64)).set("via", r.below(2)); }
			else { op = mkline("op", "arcbad"); op.set("i", r.chance(1, 2) ? "~" + std::to_string(r.below(3)) : std::string("0xffffffffffffffff")); }
			p.ops.push_back(op);
		}
		return p;
	}

	void execute(const Plan& plan, RunCtx& ctx) override {
		std::string kind;
		for (auto& l : plan.world) if (l.verb == "target") kind = l.get("kind", "vol");
		std::vector<Member> ms;
		std::vector<uint8_t> image;
		if (kind == "clm") {
			std::vector<ref::ClmMember> cm;
			for (auto& l : plan.world) if (l.verb == "track") {
				ref::ClmMember m;
				m.name = l.get("name", "a").substr(0, 8);
				m.data = prngBytes(l.u("cseed"), static_cast<size_t>(l.u("len")));
				if (l.u("cseed") % 3 == 0) m.tailSeed = l.u("cseed") | 1; // stale bytes after the name's terminator
				bool clash = false;
				for (auto& o : cm) if (ref::nameEqualNoCase(o.name, m.name)) clash = true;
				if (!clash) cm.push_back(m);
			}
			std::sort(cm.begin(), cm.end(), [](const ref::ClmMember& a, const ref::ClmMember& b) { return ref::nameCompare(a.name, b.name) < 0; });
			image = ref::encodeClm(ref::WaveFormat(), cm).bytes;
			for (auto& m : cm) { Member x; x.name = m.name; x.data = m.data; x.stored = m.data; x.size = static_cast<uint32_t>(m.data.size()); ms.push_back(x); }
		} else {
			uint32_t spare;
			ms = membersFromWorld(plan, spare);
			image = imageOf(ms, spare).bytes;
		}
		std::string path = kind == "clm" ? "s.clm" : "s.vol";
		disk::put(path, image);
		std::unique_ptr<Archive::ArchiveFile> ar;
		std::string what;
		Out o = callLib(plan, [&] { if (kind == "clm") ar = std::make_unique<Archive::ClmFile>(path); else ar = std::make_unique<Archive::VolFile>(path); }, &what);
		if (o != OkOut) ctx.fail("C13.backend-equal", "opening a reference-encoded archive failed: " + what);
		// a second archive object on the same file: its streams and calls interleave with the first one's
		std::unique_ptr<Archive::ArchiveFile> ar2;
		o = callLib(plan, [&] { if (kind == "clm") ar2 = std::make_unique<Archive::ClmFile>(path); else ar2 = std::make_unique<Archive::VolFile>(path); }, &what);
		if (o != OkOut) ctx.fail("C13.backend-equal", "opening the same archive a second time failed: " + what);
		Archive::ArchiveFile* arMain = ar.get();
		std::vector<std::unique_ptr<SActor>> actors;
		bool moved = false;
		auto checkAll = [&](SActor* acting, const std::string& after) {
			for (auto& up : actors) {
				uint64_t p, l;
				{ Armed a; p = up->obj->Position(); l = up->obj->Length(); }
				if (l != up->data.size() || p != up->pos)
					ctx.fail(up.get() == acting ? "C13.confined" : "C13.independent-position", "after " + after + ": stream of member " + std::to_string(up->member) + (up.get() == acting ? " (acting)" : " (NOT the acting object)") + " is at " + std::to_string(p) + "/" + std::to_string(l) + ", its own history implies " + std::to_string(up->pos) + "/" + std::to_string(up->data.size()));
			}
		};
		for (size_t oi = 0; oi < plan.ops.size(); ++oi) {
			const Line& op = plan.ops[oi];
			ctx.setOp(oi);
			const std::string& v = op.verb;
			ctx.schedNote(v + op.get("a", ""));
			SActor* acting = nullptr;
			// which archive object serves this step
			std::unique_ptr<Archive::ArchiveFile>& arSel = (op.u("via", 0) % 2) ? ar2 : ar;
			(void)arMain;
			if (v == "open") {
				if (ms.empty() || actors.size() >= 10) { ctx.event("skip"); continue; }
				size_t i = static_cast<size_t>(op.u("i") % ms.size());
				auto a = std::make_unique<SActor>();
				o = callLib(plan, [&] { a->obj = op.u("byname") ? arSel->OpenStream(caseVariant(ms[i].name, op.u("case"))) : arSel->OpenStream(i); }, &what);
				if (o != OkOut || !a->obj) ctx.fail("C13.confined", "OpenStream(" + std::to_string(i) + ") on a valid archive failed: " + what);
				a->data = ms[i].stored;
				a->member = i;
				acting = a.get();
				actors.push_back(std::move(a));
				moved = true;
				ctx.event("open " + std::to_string(i));
			} else if (v == "read" || v == "partial" || v == "peek" || v == "seek" || v == "slice" || v == "copy" || v == "drop") {
				if (actors.empty()) { ctx.event("skip"); continue; }
				size_t ai = static_cast<size_t>(op.u("a") % actors.size());
				SActor& a = *actors[ai];
				acting = &a;
				uint64_t rem = a.data.size() - a.pos;
				if (v == "read" || v == "peek" || v == "partial") {
					uint64_t n = parseU64(op.get("n", "~0").substr(1)) % (rem + (v == "partial" ? 3 : 1));
					uint64_t expect = n < rem ? n : rem;
					std::unique_ptr<char[]> buf(new char[static_cast<size_t>(expect)]);
					size_t got = static_cast<size_t>(expect);
					o = callLib(plan, [&] { if (v == "read") a.obj->Read(buf.get(), static_cast<size_t>(n)); else if (v == "peek") a.obj->Peek(buf.get(), static_cast<size_t>(n)); else got = a.obj->ReadPartial(buf.get(), static_cast<size_t>(n)); }, &what);
					if (o != OkOut) ctx.fail("C13.confined", v + " of " + std::to_string(n) + " in-bounds bytes at " + std::to_string(a.pos) + " on a stream of member " + std::to_string(a.member) + " failed: " + what);
					if (got != expect || memcmp(buf.get(), a.data.data() + a.pos, static_cast<size_t>(expect)) != 0) ctx.fail("C13.confined", v + " at " + std::to_string(a.pos) + " on a stream of member " + std::to_string(a.member) + " did not deliver that member's bytes");
					if (v != "peek") { a.pos += expect; if (expect) moved = true; }
				} else if (v == "seek") {
					uint64_t p = parseU64(op.get("p", "~0").substr(1)) % (a.data.size() + 1);
					o = callLib(plan, [&] { a.obj->Seek(p); }, &what);
					if (o != OkOut) ctx.fail("C13.confined", "in-bounds seek failed: " + what);
					a.pos = p;
					moved = true;
				} else if (v == "slice" || v == "copy") {
					if (actors.size() >= 10) { ctx.event("skip"); continue; }
					auto* fs = dynamic_cast<Stream::FileSliceReader*>(a.obj.get());
					if (!fs) { ctx.event("skip"); continue; }
					auto na = std::make_unique<SActor>();
					uint64_t s = 0, n = a.data.size();
					if (v == "slice") { s = parseU64(op.get("s", "~0").substr(1)) % (a.data.size() + 1); n = parseU64(op.get("n", "~0").substr(1)) % (a.data.size() - s + 1); }
					o = callLib(plan, [&] { if (v == "slice") na->obj = std::make_unique<Stream::FileSliceReader>(static_cast<const Stream::FileSliceReader*>(fs)->Slice(s, n)); else na->obj = std::make_unique<Stream::FileSliceReader>(*fs); }, &what);
					if (o != OkOut) ctx.fail("C13.create-refuse", v + " of a member stream failed: " + what);
					na->data.assign(a.data.begin() + static_cast<long>(s), a.data.begin() + static_cast<long>(s + n));
					na->member = a.member;
					{ Armed arm; na->pos = na->obj->Position(); }
					if (v == "slice" && na->pos != 0) ctx.fail("C13.confined", "a fresh slice of a member stream starts at position " + std::to_string(na->pos));
					if (na->pos > na->data.size()) ctx.fail("C13.confined", "copy of a member stream reports a position beyond its length");
					actors.push_back(std::move(na));
					moved = true;
				} else { // drop
					{ Armed arm; actors.erase(actors.begin() + static_cast<long>(ai)); }
					acting = nullptr;
				}
				ctx.event(v + " " + std::to_string(ai));
			} else if (v == "arcname" || v == "arcindex" || v == "arcextract" || v == "arcbad") {
				if (v == "arcbad") {
					std::string tok = op.get("i", "~0");
					size_t i = tok[0] == '~' ? ms.size() + static_cast<size_t>(parseU64(tok.substr(1))) : static_cast<size_t>(parseU64(tok));
					o = callLib(plan, [&] { auto s = arSel->OpenStream(i); }, &what);
					if (o == OkOut) ctx.fail("C13.create-refuse", "OpenStream(" + std::to_string(i) + ") on an archive with " + std::to_string(ms.size()) + " members succeeded");
					Out o2 = callLib(plan, [&] { arSel->ExtractFile(i, "_x/bad.bin"); }, &what);
					if (o2 == OkOut) ctx.fail("C13.create-refuse", "ExtractFile with an out-of-range index succeeded");
				} else if (!ms.empty()) {
					size_t i = static_cast<size_t>(op.u("i") % ms.size());
					if (v == "arcname") {
						std::string nm; uint32_t sz = 0;
						o = callLib(plan, [&] { nm = arSel->GetName(i); sz = arSel->GetSize(i); }, &what);
						if (o != OkOut || nm != ms[i].name || sz != ms[i].size) ctx.fail("C13.backend-equal", "listing member " + std::to_string(i) + " while streams are open gave '" + nm + "'/" + std::to_string(sz));
					} else if (v == "arcindex") {
						size_t idx = SIZE_MAX;
						o = callLib(plan, [&] { idx = arSel->GetIndex(caseVariant(ms[i].name, op.u("case"))); }, &what);
						if (o != OkOut || idx != i) ctx.fail("C13.backend-equal", "lookup of member " + std::to_string(i) + " while streams are open returned " + std::to_string(idx));
					} else if (ms[i].kind == 0x100 || ms[i].kind == 0x103 || kind == "clm") {
						std::string outp = "_x/e" + std::to_string(oi) + ".bin";
						o = callLib(plan, [&] { arSel->ExtractFile(i, outp); }, &what);
						if (o != OkOut) ctx.fail("C13.backend-equal", "ExtractFile(" + std::to_string(i) + ") while streams are open failed: " + what);
						std::vector<uint8_t> f;
						disk::get(outp, f);
						const std::vector<uint8_t>& want = ms[i].data;
						bool okc = kind == "clm" ? ref::checkExtractedWav(f, ref::WaveFormat(), want).empty() : f == want;
						if (!okc) ctx.fail("C13.backend-equal", "ExtractFile(" + std::to_string(i) + ") while streams are open wrote wrong content");
					}
				}
				ctx.event(v);
			} else throw std::runtime_error("unknown op " + v);
			checkAll(acting, op.str());
		}
		if (actors.size() >= 3) ctx.count("probe.three_or_more_member_streams_live");
		{ Armed a; actors.clear(); ar.reset(); ar2.reset(); }
		ctx.nontrivial = moved;
		ctx.count("library_calls", plan.ops.size());
	}
	std::string signatureDetail(const Plan& p, const Violation& v) override { return v.opIndex < p.ops.size() ? p.ops[v.opIndex].verb : ""; }
};
FamilyRegistrar regArchiveStreams(new ArchiveStreams);

} // namespace
} // namespace sim

// Library calls made BEFORE main() - from the constructor of a namespace-scope object in a translation unit that is linked ahead of
// the library's own objects, so that the library's dynamically initialised statics (if it has any) are not yet constructed - and
// the same calls made again later. A result that depends on when in the program's life the call happens is a defect.
#pragma once
#include <cstdint>
#include <string>
#include <vector>

namespace sim {
struct LifetimeProbe { std::string name; bool ok = false; std::string error; std::vector<uint8_t> bytes; };
std::vector<LifetimeProbe> computeLifetimeProbes();          // runs the calls now
const std::vector<LifetimeProbe>& preMainLifetimeProbes();  // what they returned during static initialisation
std::string lifetimeProbeDifference(const std::string& prefix); // "" or how a probe whose name starts with prefix differs between then and now
}

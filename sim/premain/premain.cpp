#include "premain.h"
#include "Bitmap/BitmapFile.h"
#include "Map/Map.h"
#include "Sprite/ArtFile.h"
#include "Sprite/TilesetLoader.h"
#include "Stream/DynamicMemoryWriter.h"
#include "Stream/MemoryReader.h"
#include <exception>

using namespace OP2Utility;

namespace sim {
namespace {
template <class F> LifetimeProbe probe(const char* name, F&& f) {
	LifetimeProbe p;
	p.name = name;
	try {
		Stream::DynamicMemoryWriter w;
		f(w);
		auto rd = w.GetReader();
		p.bytes.resize(static_cast<size_t>(rd.Length()));
		rd.Read(p.bytes.data(), p.bytes.size());
		p.ok = true;
	} catch (const std::exception& e) { p.error = e.what(); } catch (...) { p.error = "non-std exception"; }
	return p;
}
}

std::vector<LifetimeProbe> computeLifetimeProbes() {
	std::vector<LifetimeProbe> v;
	v.push_back(probe("bitmap:factory-8-bit-5x3", [](Stream::Writer& w) { auto b = BitmapFile::CreateIndexed(8, 5, 3); b.WriteIndexed(w); }));
	v.push_back(probe("bitmap:factory-1-bit-9x-2-read-back", [](Stream::Writer& w) {
		auto b = BitmapFile::CreateIndexed(1, 9, -2);
		Stream::DynamicMemoryWriter t; b.WriteIndexed(t); auto rd = t.GetReader(); auto back = BitmapFile::ReadIndexed(rd); back.Validate(); back.WriteIndexed(w);
	}));
	v.push_back(probe("map:default", [](Stream::Writer& w) { Map m; m.Write(w); }));
	v.push_back(probe("art:one-palette", [](Stream::Writer& w) { ArtFile a{}; a.palettes.resize(1); for (size_t i = 0; i < a.palettes[0].size(); ++i) { a.palettes[0][i].red = static_cast<uint8_t>(i); a.palettes[0][i].green = 1; a.palettes[0][i].blue = 2; a.palettes[0][i].alpha = 3; } a.Write(w); }));
	v.push_back(probe("tileset:32x32", [](Stream::Writer& w) { auto t = BitmapFile::CreateIndexed(8, 32, 32); for (size_t i = 0; i < t.pixels.size(); ++i) t.pixels[i] = static_cast<uint8_t>(i); Tileset::WriteCustomTileset(w, t); }));
	return v;
}

namespace {
std::vector<LifetimeProbe> g_preMain;
struct RunBeforeMain { RunBeforeMain() { g_preMain = computeLifetimeProbes(); } } g_runBeforeMain;
}

const std::vector<LifetimeProbe>& preMainLifetimeProbes() { return g_preMain; }

// how the two differ, or "" (shared by the families that consult the probes)
std::string lifetimeProbeDifference(const std::string& prefix) {
	const auto& pre = preMainLifetimeProbes();
	std::vector<LifetimeProbe> now = computeLifetimeProbes();
	for (size_t i = 0; i < pre.size() && i < now.size(); ++i) {
		if (pre[i].name.compare(0, prefix.size(), prefix) != 0) continue;
		if (pre[i].ok != now[i].ok) return "'" + pre[i].name + "' " + (pre[i].ok ? "succeeded" : "failed (" + pre[i].error + ")") + " when called during static initialisation (before main) and " + (now[i].ok ? "succeeds" : "fails (" + now[i].error + ")") + " now";
		if (pre[i].bytes != now[i].bytes) return "'" + pre[i].name + "' produced other bytes when called during static initialisation (before main) than it produces now";
	}
	return "";
}
}

# Builds simrun = every *.cpp under $(REPO)/src as it is in the working tree + the harness under sim/.
#   make REPO=/repo VARIANT=asan|plain|gcc|cov
# Object files carry dependency files, so any edit under $(REPO) triggers exactly the needed recompiles.
REPO    ?= /repo
VARIANT ?= asan
GUARD   := OP2UTILITY_VERIF

REPO_ABS := $(realpath $(REPO))
TAG      := $(shell printf '%s' '$(REPO_ABS)' | md5sum | cut -c1-8)
BUILD    := build/$(VARIANT)-$(TAG)

ifeq ($(VARIANT),asan)
CXX      := clang++
CXXFLAGS := -std=c++17 -O1 -g -fno-omit-frame-pointer -fsanitize=address,undefined -fno-sanitize-recover=all \
            -fno-sanitize=nonnull-attribute,alignment -D_GLIBCXX_ASSERTIONS
LDFLAGS  := -fsanitize=address,undefined
else ifeq ($(VARIANT),gcc)
# second compiler's sanitizers: g++'s UBSan expands abs/labs inline and reports abs(INT_MIN), which clang 14's does not
CXX      := g++
CXXFLAGS := -std=c++17 -O1 -g -fno-omit-frame-pointer -fsanitize=address,undefined -fno-sanitize-recover=all \
            -fno-sanitize=nonnull-attribute,alignment -D_GLIBCXX_ASSERTIONS
LDFLAGS  := -fsanitize=address,undefined
else ifeq ($(VARIANT),cov)
CXX      := clang++
CXXFLAGS := -std=c++17 -O0 -g -fprofile-instr-generate -fcoverage-mapping -D_GLIBCXX_ASSERTIONS -DSIM_COVERAGE
LDFLAGS  := -fprofile-instr-generate
else
CXX      := g++
CXXFLAGS := -std=c++17 -O2 -g
LDFLAGS  :=
endif
CXXFLAGS += -D$(GUARD) -Wall -Wno-unknown-pragmas -Wno-unused-function
LDLIBS   := -lstdc++fs -ldl

REPO_SRCS := $(shell find $(REPO_ABS)/src -name '*.cpp' | sort)
REPO_OBJS := $(patsubst $(REPO_ABS)/src/%.cpp,$(BUILD)/repo/%.o,$(REPO_SRCS))
SIM_SRCS  := $(shell find sim -name '*.cpp' -not -path 'sim/premain/*' | sort)
SIM_OBJS  := $(patsubst sim/%.cpp,$(BUILD)/sim/%.o,$(SIM_SRCS))
# linked FIRST: its static initialisers run before those of the library's translation units
PRE_OBJS  := $(BUILD)/sim/premain/premain.o

all: $(BUILD)/simrun

$(BUILD)/simrun: $(PRE_OBJS) $(REPO_OBJS) $(SIM_OBJS)
	$(CXX) $(LDFLAGS) -rdynamic -o $@ $^ $(LDLIBS)

$(BUILD)/repo/%.o: $(REPO_ABS)/src/%.cpp
	@mkdir -p $(dir $@)
	$(CXX) $(CXXFLAGS) -MMD -MP -c $< -o $@

$(BUILD)/sim/%.o: sim/%.cpp
	@mkdir -p $(dir $@)
	$(CXX) $(CXXFLAGS) -I$(REPO_ABS)/src -Isim -MMD -MP -c $< -o $@

print-build:
	@echo $(BUILD)

clean:
	rm -rf build

-include $(REPO_OBJS:.o=.d) $(SIM_OBJS:.o=.d) $(PRE_OBJS:.o=.d)

.PHONY: all clean print-build
